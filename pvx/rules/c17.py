"""C17 — The type algebra used for dependency matching obeys its laws.

Decided clause (P8): the structural recursions inspect / preserve everything that matters: every comparison function reads,
on both sides, every field of every payload struct except lifetimes and an explicit exemption table; every rebuilding
function rebuilds each payload from the like-named field of its input; CanonicalType has one constructor.
The laws over all type pairs are not decided.
"""
import re
from ..facts import callee, op_place, strip_generics
from ..flow import Defs, backward_slice, rv_operands, slice_calls
from ..tables import enum_switches, switch_arms

LEVEL = 'other'
TECHNIQUE = 'static analysis: owner-qualified field coverage / preservation over the families of the comparison, substitution and rendering functions; equality-vs-structural comparison audit; length-before-zip dominance; operand-side symmetry of enum tests; quote-free renderer rules'
CLAUSE = ('the template / equivalence comparisons read on both sides every non-lifetime field of every type payload (reference and '
          'pointer mutability, array length, fn-pointer abi/unsafety/arity, path identity), the substitution and canonicalisation '
          'rebuild every payload from the like-named input field and keep the variant, and CanonicalType is built only by canonicalize(). Wherever an equivalence function registers generic names, names of both operands are used as lookup keys.')
TRUSTED = ['derived PartialEq compares all fields']

CR = 'rustdoc_ir'
T = 'rustdoc_ir::'
PAYLOADS = {
    T + 'type_reference::TypeReference', T + 'raw_pointer::RawPointer', T + 'array::Array', T + 'slice::Slice', T + 'tuple::Tuple',
    T + 'function_pointer::FunctionPointer', T + 'function_pointer::FunctionPointerInput', T + 'generic::Generic', T + 'path_type::PathType',
}
# (function, struct) -> fields that need not be compared, with the reason
EXEMPT_CMP = {
    ('*', T + 'function_pointer::FunctionPointerInput'): ({'name'}, 'parameter names are not part of a fn-pointer type'),
    ('template', T + 'path_type::PathType'):
        ({'rustdoc_id'}, 'explicitly destructured as `rustdoc_id: _`: the id is a cache key, path+package identify the type'),
    ('template', T + 'generic::Generic'): ({'name'}, 'the template side binds the name; the concrete side is compared as a whole'),
}
_ALL_CMP = [T + 'type_reference::TypeReference', T + 'raw_pointer::RawPointer', T + 'array::Array', T + 'slice::Slice', T + 'tuple::Tuple',
            T + 'function_pointer::FunctionPointer', T + 'function_pointer::FunctionPointerInput', T + 'path_type::PathType']
CMP_FAMILIES = {'template': _ALL_CMP, 'equivalence': _ALL_CMP + [T + 'generic::Generic']}
REBUILD_FAMILIES = ['bind', 'canonicalize']
EXEMPT_REBUILD = {
    ('canonicalize', T + 'function_pointer::FunctionPointerInput', 'name'): 'canonical form erases parameter names',
    ('canonicalize', T + 'generic::Generic', 'name'): 'canonical form renames generics (bijectively, via the name map keyed by the old name)',
}


ROOTS = {
    # public entry points of rustdoc_ir::Type (used by pavexc): stable names. Everything they reach inside the crate is the mechanism.
    'template': T + 'type_::{impl rustdoc_ir::Type}::is_a_template_for',
    'equivalence': T + 'type_::{impl rustdoc_ir::Type}::is_equivalent_to',
    'canonicalize': T + 'type_::{impl rustdoc_ir::Type}::canonicalize',
    'bind': T + 'type_::{impl rustdoc_ir::Type}::bind_generic_type_parameters',
}
_FAM = {}


def family_bodies(ctx, name):
    """bodies (closures included) of every rustdoc_ir item reachable from the public root `name` through resolved calls"""
    key = (id(ctx.fb), name)
    if key in _FAM:
        return _FAM[key]
    items, calls = {}, {}
    for b in ctx.fb.bodies(CR):
        if b.is_promoted:
            continue
        items.setdefault(b.nroot, []).append(b)
        for bb, t in b.calls():
            for c in (callee(t), t.get('res')):
                c = strip_generics(c or '')
                if c.startswith(T):
                    calls.setdefault(b.nroot, set()).add(c)
    root = ROOTS[name]
    seen, work = set(), []
    if root in items:
        seen, work = {root}, [root]
    while work:
        x = work.pop()
        for c in calls.get(x, ()):
            if c in items and c not in seen:
                seen.add(c)
                work.append(c)
    out = [b for it in sorted(seen) for b in items[it]]
    _FAM[key] = out
    return out


def place_field_reads(pl):
    """[(owner adt, field)] for the ADT-owned field projections of a place"""
    out = []
    fo = pl.get('fo')
    if not fo:
        return out
    i = 0
    for el in pl.get('p', []):
        if el.startswith('f:'):
            o = fo[i] if i < len(fo) else ''
            i += 1
            if o:
                out.append((strip_generics(o), el[2:]))
    return out


def all_places(node):
    pls = []
    if 'rv' in node:
        ops, places = rv_operands(node['rv'])
        pls += places + [op_place(o) for o in ops if op_place(o) is not None]
        if 'lhs' in node:
            pass
    elif node.get('k') == 'call':
        pls += [op_place(o) for o in node['args'] if op_place(o) is not None]
    elif node.get('k') == 'switch' and 'src' in node:
        pls.append(node['src'])
    return pls


def field_read_sites(bodies):
    """(owner, field) -> set of (body id, base local) read sites"""
    out = {}
    for b in bodies:
        for bb in b.live_blocks():
            blk = b.blocks[bb]
            nodes = list(blk['st']) + ([blk['term']] if blk['term'] else [])
            for node in nodes:
                for pl in all_places(node):
                    for (o, f) in place_field_reads(pl):
                        out.setdefault((o, f), set()).add((b.nid, pl['l']))
    return out


def adt_fields(ctx, path):
    a = ctx.fb.adt(CR, path)
    if a is None:
        return None
    return [(f['n'], f['ty']) for v in a['variants'] for f in v['fields']]


def is_lifetime_ty(ty):
    s = strip_generics(ty)
    return s.endswith('lifetime::Lifetime') or s.endswith('GenericLifetimeParameter') or s.endswith('NamedLifetime')


def r1_field_coverage(ctx):
    ctx.rule('C17.R1', 'P8 field coverage: in each structural comparison — everything reachable inside rustdoc_ir from the public '
             'Type::is_a_template_for, respectively Type::is_equivalent_to, closures and helpers included — every field of every payload '
             'struct, except lifetime-typed fields and the reasoned exemption table, is read from at least two distinct bases (both sides of '
             'the comparison).')
    for fam, structs in CMP_FAMILIES.items():
        bodies = family_bodies(ctx, fam)
        if not ctx.need('C17.R1', ROOTS[fam], bodies):
            continue
        ctx.count('comparison_bodies', len(bodies))
        reads = field_read_sites(bodies)
        for s in structs:
            fields = ctx.need('C17.R1', 'ADT ' + s, adt_fields(ctx, s))
            if not fields:
                continue
            ex = set()
            for key in (('*', s), (fam, s)):
                if key in EXEMPT_CMP:
                    ex |= EXEMPT_CMP[key][0]
            for fname, fty in fields:
                if is_lifetime_ty(fty) or fname in ex:
                    continue
                sites = reads.get((s, fname), set())
                n = len(sites)
                ctx.ob('C17.R1', 'compared|%s|%s.%s' % (fam, s.split('::')[-1], fname), n >= 2,
                       bodies[0].loc(), '%s.%s is read from %d distinct base(s) in the %s comparison (needs both sides)%s'
                       % (s.split('::')[-1], fname, n, fam, '' if n >= 2 else ': the comparison ignores this field'))
        # mismatching variants yield false somewhere in the family
        falses = [1 for b in bodies for bb, j, st in b.all_assigns() if st['lhs'] == {'l': 0} and st['rv']['k'] == 'use' and st['rv']['op'].get('int') == '0']
        ctx.ob('C17.R1', 'catch-all-false|%s' % fam, bool(falses), bodies[0].loc(), 'a `false` result exists for mismatching variants: %s' % bool(falses), nontrivial=False)


# combinators that can discard (part of) the value they are applied to
DROPPERS = {'filter', 'filter_map', 'skip', 'skip_while', 'take', 'take_while', 'step_by', 'retain', 'retain_mut', 'truncate', 'dedup', 'dedup_by',
            'dedup_by_key', 'pop', 'take_if', 'xor', 'find', 'find_map', 'nth', 'last', 'drain', 'split_off'}


def r2_field_preservation(ctx):
    ctx.rule('C17.R2', 'P8 field preservation: in everything reachable from Type::bind_generic_type_parameters and from Type::canonicalize every payload struct that is rebuilt takes each '
             'field from a value derived from the like-named field of a payload of the same struct (copied or recursed into); lifetime '
             'fields and the reasoned exemptions excepted; the value does not pass through a discarding combinator (filter/skip/take/..); '
             'in the arm for variant V the rebuilt Type is variant V.')
    for fn in REBUILD_FAMILIES:
        bodies = family_bodies(ctx, fn)
        if not ctx.need('C17.R2', ROOTS[fn], bodies):
            continue
        n_aggs = 0
        for b in bodies:
            defs = Defs(b)
            for bb, j, st in b.all_assigns():
                rv = st['rv']
                if rv['k'] != 'agg' or rv.get('ak') != 'adt':
                    continue
                s = strip_generics(rv['adt'])
                if s not in PAYLOADS:
                    continue
                n_aggs += 1
                for fname, o in zip(rv['fields'], rv['ops']):
                    fields = dict(adt_fields(ctx, s) or [])
                    if is_lifetime_ty(fields.get(fname, '')) or (fn, s, fname) in EXEMPT_REBUILD:
                        continue
                    pl = op_place(o)
                    srcs = set()
                    sl = []
                    if pl is not None:
                        sl, _ = backward_slice(b, pl['l'], defs)
                        for _, _, node in sl:
                            for q in all_places(node):
                                srcs |= set(place_field_reads(q))
                        srcs |= set(place_field_reads(pl))
                    ok = (s, fname) in srcs
                    droppers = sorted({c.split('::')[-2] + '::' + c.split('::')[-1] for c, _, _ in slice_calls(sl) if c.split('::')[-1] in DROPPERS}) if pl is not None else []
                    if droppers:
                        ctx.ob('C17.R2', 'not-filtered|%s|%s.%s' % (fn, s.split('::')[-1], fname), False, b.loc(bb, st),
                               'rebuilt %s.%s passes through %s: part of the input value can be dropped on the way' % (s.split('::')[-1], fname, droppers))
                    ctx.ob('C17.R2', 'preserved|%s|%s.%s' % (fn, s.split('::')[-1], fname), ok, b.loc(bb, st),
                           'rebuilt %s.%s derives from input fields %s%s' % (s.split('::')[-1], fname, sorted(x[0].split('::')[-1] + '.' + x[1] for x in srcs)[:6],
                                                                           '' if ok else ' — not from the like-named input field (dropped / defaulted / swapped)'))
        ctx.floor('C17.R2', 'payload structs rebuilt by %s' % fn, n_aggs, 8)
        # variant in = variant out: in every body of the family that matches on Type and builds Type values in the arms
        n_sw = 0
        for main in bodies:
            for sbb, st in enum_switches(main, T + 'Type'):
                arms = switch_arms(main, sbb)
                if not any(rv_.get('k') == 'agg' and strip_generics(rv_.get('adt', '')) == T + 'Type'
                           for blocks in arms.values() for bb in blocks for s2 in main.stmts(bb) for rv_ in [s2.get('rv') or {}]):
                    continue
                n_sw += 1
                for var, blocks in arms.items():
                    built = set()
                    for bb in blocks:
                        for s2 in main.stmts(bb):
                            rv = s2.get('rv')
                            if rv and rv['k'] == 'agg' and rv.get('ak') == 'adt' and strip_generics(rv['adt']) == T + 'Type':
                                built.add(rv['var'])
                    allowed = {var} | ({'Path', 'TypeAlias'} if var in ('Path', 'TypeAlias') else set())
                    ctx.ob('C17.R2', 'variant-kept|%s|%s' % (fn, var), built <= allowed, main.loc(sbb),
                           'arm %s rebuilds Type variant(s) %s' % (var, sorted(built) or '(clone / binding)'))
        ctx.floor('C17.R2', 'matches on Type that rebuild Type values in %s' % fn, n_sw, 1)


def r3_canonical_constructor(ctx):
    ctx.rule('C17.R3', 'P3 who-may-construct: CanonicalType(..) is constructed only in Type::canonicalize (and derived impls), from the result '
             'of _canonicalize.')
    n = 0
    CT = ctx.fb.adt_path(CR, T + 'type_::CanonicalType')
    for b in ctx.fb.bodies(CR):
        if b.is_promoted:
            continue
        for bb, j, st in b.all_assigns():
            rv = st['rv']
            if rv['k'] == 'agg' and rv.get('ak') == 'adt' and strip_generics(rv['adt']) == CT:
                n += 1
                derived = b.raw.get('impl_trait') in ('core::clone::Clone', 'serde_core::de::Deserialize', 'serde::de::Deserialize') or b.raw.get('exp')
                ok = b.nroot in {x.nroot for x in family_bodies(ctx, 'canonicalize')} or derived
                ctx.ob('C17.R3', 'constructor|%s' % b.nroot.replace(T, ''), ok, b.loc(bb, st), 'CanonicalType constructed in %s' % b.nroot)
    ctx.floor('C17.R3', 'CanonicalType construction sites', n, 1)
    # outside the crate nobody can construct it: the field is private
    a = ctx.fb.adt(CR, T + 'type_::CanonicalType')
    if ctx.need('C17.R3', 'ADT CanonicalType', a):
        vis = [f['vis'] for v in a['variants'] for f in v['fields']]
        ctx.ob('C17.R3', 'private-field', all('Public' not in v for v in vis), '%s:%s' % (a['file'], a['ln']), 'field visibility: %s' % vis)


TY = 'rustdoc_ir::Type'
TEMPLATE_FUNCS = [T + 'type_::{impl rustdoc_ir::Type}::_is_a_template_for', T + 'path_type::PathType::_is_a_resolved_path_type_template_for']
RECURSIVE_TYPES = ('rustdoc_ir::Type', 'rustdoc_ir::path_type::PathType', 'rustdoc_ir::generic_argument::GenericArgument',
                   'rustdoc_ir::type_reference::TypeReference', 'rustdoc_ir::tuple::Tuple', 'rustdoc_ir::slice::Slice', 'rustdoc_ir::array::Array',
                   'rustdoc_ir::raw_pointer::RawPointer', 'rustdoc_ir::function_pointer::FunctionPointer')


def _vacant_insert(b, ibb, it):
    """the insert at `ibb` is dominated by the nothing-found edge (None / Vacant / contains_key == false) of a lookup on the same map with a key
    that derives from the same source, and that edge leads nowhere else"""
    from ..flow import forward_derived
    def roots(op):
        q = op_place(op)
        if q is None:
            return set()
        _, locs = backward_slice(b, q['l'], through_calls=True)
        return {l for l in locs if 1 <= l <= b.raw['argc']}
    m_ins, k_ins = roots(it['args'][0]), roots(it['args'][1])
    for lb, lt in b.calls():
        m = (callee(lt) or '').split('::')[-1]
        if lb == ibb or m not in ('get', 'get_mut', 'contains_key', 'entry', 'get_key_value') or not lt['aty'] or 'HashMap<alloc::string::String, rustdoc_ir::Type' not in lt['aty'][0]:
            continue
        if not (roots(lt['args'][0]) & m_ins) or not (roots(lt['args'][1]) & k_ins) or not b.dominates(lb, ibb):
            continue
        d = lt['dest']
        derived = forward_derived(b, {d['l']}, through_calls=False) if not d.get('p') else set()
        for sb in b.live_blocks():
            w = b.term(sb)
            if not w or w['k'] != 'switch' or not b.dominates(sb, ibb):
                continue
            if 'enum' in w and w['src']['l'] in derived:
                found = {'core::option::Option': 'Some'}.get(strip_generics(w['enum']), 'Occupied' if strip_generics(w['enum']).endswith('::Entry') else None)
                if found is None:
                    continue
                found_tg = [tg for nme, tg in w['ts'] if nme == found] + ([w['else']] if found in w.get('rest', []) else [])
                if found_tg and not any(ibb in b.reachable(tg, avoid=[sb]) for tg in found_tg):
                    return True
            elif 'enum' not in w and m == 'contains_key' and op_place(w['d']) is not None and op_place(w['d'])['l'] in derived:
                if ibb not in b.reachable(w['else'], avoid=[sb]):      # `else` = true = the key is there
                    return True
    return False


def r4_bindings_compared_by_equality(ctx):
    from ..flow import forward_derived
    ctx.rule('C17.R4', 'P1/P3: in the template-matching functions every `bindings.insert(name, ty)` has its previous value compared with '
             'the new one by structural equality (PartialEq on Type) on every path that goes on to report a match (wherever in the family reachable from '
             'Type::is_a_template_for the insert lives: a helper\'s result must be tested by its callers), and those functions never '
             'consult the weaker equivalence relation (a parameter bound twice must be bound to the same type, otherwise substitution '
             'cannot reproduce the concrete type).')
    n = 0
    fam = family_bodies(ctx, 'template')
    ctx.need('C17.R4', ROOTS['template'], fam)
    fam_items = {b.nroot for b in fam}
    for fn in sorted(fam_items):
        bodies = [b for b in fam if b.nroot == fn]
        for b in bodies:
            for bb, t in b.calls():
                c = callee(t) or ''
                if c.endswith('_is_equivalent_to') or c.endswith('::is_equivalent_to'):
                    ctx.ob('C17.R4', 'weaker-relation|%s' % fn.split('::')[-1], False, b.loc(bb, t),
                           'template matching consults the equivalence-up-to-renaming relation (%s)' % c)
                is_bindings = bool(t['aty']) and 'HashMap<alloc::string::String, rustdoc_ir::Type' in t['aty'][0]
                if is_bindings and c.split('::')[-1] in ('insert', 'get', 'get_mut', 'remove', 'entry', 'contains_key', 'get_key_value', 'remove_entry'):
                    n += 1
                    d = t['dest']
                    derived = forward_derived(b, {d['l']}, through_calls=c.split('::')[-1] != 'insert') if not d.get('p') else set()
                    # payload moved out of the Option (`previous`)
                    cmp_blocks = []
                    for cb, ct in b.calls():
                        if callee(ct) in ('core::cmp::PartialEq::ne', 'core::cmp::PartialEq::eq') and strip_generics(ct['aty'][0]).lstrip('&') == TY:
                            # one operand derives from the insert's result
                            for a in ct['args']:
                                q = op_place(a)
                                if q is not None:
                                    sl, locs = backward_slice(b, q['l'], through_calls=False)
                                    if locs & derived:
                                        cmp_blocks.append(cb)
                    # on the Some(previous) path every way to leave goes through the comparison
                    # the branch taken when the parameter already has a binding: Some(previous) / Entry::Occupied / contains_key == true
                    some_targets = []
                    for sb in b.live_blocks():
                        w = b.term(sb)
                        if not w or w['k'] != 'switch':
                            continue
                        if 'enum' in w and w['src']['l'] in derived:
                            e = strip_generics(w['enum'])
                            if e == 'core::option::Option':
                                some_targets += [tg for nme, tg in w['ts'] if nme == 'Some'] + ([w['else']] if 'Some' in w.get('rest', []) else [])
                            elif e.endswith('::Entry'):
                                some_targets += [tg for nme, tg in w['ts'] if nme == 'Occupied'] + ([w['else']] if 'Occupied' in w.get('rest', []) else [])
                        elif 'enum' not in w and c.split('::')[-1] == 'contains_key' and op_place(w['d']) is not None and op_place(w['d'])['l'] in derived:
                            some_targets.append(w['else'])
                    rets = set(b.return_blocks())
                    loop_heads = {hb for hb, ht in b.calls() if callee(ht) == 'core::iter::traits::iterator::Iterator::next'}
                    bad = False
                    for tg in some_targets:
                        if tg in cmp_blocks:
                            continue
                        if b.reachable(tg, avoid=cmp_blocks) & (rets | loop_heads):
                            bad = True
                    ok = bool(cmp_blocks) and bool(some_targets) and not bad
                    if not ok and c.split('::')[-1] == 'insert' and not d.get('p'):
                        # the same comparison written with a combinator: `insert(..).filter(|previous| previous != assigned)` (a conflict is what
                        # is left), `is_some_and(|p| p != x)`, `map_or(true, |p| p == x)`: the closure compares its argument by PartialEq on Type,
                        # and the result of the combinator is what the function returns or tests
                        wide = forward_derived(b, {d['l']}, through_calls=True)
                        for cb, ct in b.calls():
                            m = (callee(ct) or '').split('::')[-1]
                            if m not in ('filter', 'is_some_and', 'is_none_or', 'map_or', 'map', 'and_then', 'take_if') or not ct['args']:
                                continue
                            q0 = op_place(ct['args'][0])
                            if q0 is None or q0['l'] not in wide:
                                continue
                            compares = False
                            for cl in ctx.fb.bodies_of_item(CR, b.nroot):
                                if cl.nid == cl.nroot or cl.is_promoted:
                                    continue
                                if any(callee(x) in ('core::cmp::PartialEq::ne', 'core::cmp::PartialEq::eq') and x.get('aty') and strip_generics(x['aty'][0]).lstrip('&') == TY
                                       for _, x in cl.calls()):
                                    compares = True
                            res = ct['dest']['l'] if not ct['dest'].get('p') else None
                            res_der = forward_derived(b, {res}, through_calls=True) if res is not None else set()
                            used = 0 in res_der or res == 0 or any((b.term(sb) or {}).get('k') == 'switch' and ((b.term(sb).get('src') or {}).get('l') in res_der or
                                                                   (op_place(b.term(sb).get('d') or {}) or {}).get('l') in res_der) for sb in b.live_blocks())
                            if compares and used:
                                ok = True
                                cmp_blocks = [cb]
                    if not ok and c.split('::')[-1] == 'insert' and _vacant_insert(b, bb, t):
                        ctx.ob('C17.R4', 'binding-compared|%s|bb-order-%d' % (fn.split('::')[-1], n), True, b.loc(bb, t),
                               'this insert only runs when a lookup of the same key in the same map has just found nothing: there is no previous binding to compare')
                        continue
                    ctx.ob('C17.R4', 'binding-compared|%s|bb-order-%d' % (fn.split('::')[-1], n), ok, b.loc(bb, t),
                           'previous binding compared with the new one by PartialEq on Type (blocks %s) before the match goes on: %s' % (cmp_blocks, ok))
    ctx.floor('C17.R4', 'bindings.insert sites in the template family', n, 1)
    # a helper that records a binding reports a conflict through its result: no caller may drop it
    for b in fam:
        for bb, t in b.calls():
            c = strip_generics(callee(t) or '')
            if c in fam_items and c != b.nroot and not c.endswith('is_a_template_for') and not c.endswith('_template_for'):
                hb = [x for x in fam if x.nroot == c]
                if not any(callee(t2) == 'std::collections::hash::map::HashMap::insert' for x in hb for _, t2 in x.calls()):
                    continue
                d = t['dest']
                der = forward_derived(b, {d['l']}, through_calls=True) if not d.get('p') else set()
                used = 0 in der or any((b.term(sb) or {}).get('k') == 'switch' and ((b.term(sb).get('src') or {}).get('l') in der or (op_place(b.term(sb).get('d') or {}) or {}).get('l') in der)
                                       for sb in b.live_blocks())
                ctx.ob('C17.R4', 'conflict-reported|%s->%s' % (b.nroot.split('::')[-1], c.split('::')[-1]), used, b.loc(bb, t),
                       'the result of %s (which records a binding and reports a conflicting earlier one) is tested or returned: %s' % (c.split('::')[-1], used))


def r5_no_shortcut_around_recursion(ctx):
    from ..tables import guard_context
    ctx.rule('C17.R5', 'P1: in the per-argument loops of the PathType comparisons, once both arguments are type parameters every path back to '
             'the loop head passes through the recursive comparison or the generic-id registration/binding (no fast path that skips '
             'registering nested generics).')
    GA = 'rustdoc_ir::generic_argument::GenericArgument'
    n = 0
    for famname, extra in (('equivalence', {T + 'generics_equivalence::UnassignedIdGenerator::id'}), ('template', {'std::collections::hash::map::HashMap::insert'})):
        fam = family_bodies(ctx, famname)
        ctx.need('C17.R5', ROOTS[famname], fam)
        must = {b.nroot for b in fam} | extra
        for b in fam:
            sw = [sb for sb, st in enum_switches(b, GA)]
            region = [bb for bb in b.live_blocks() if guard_context(b, bb).get(GA) == {'TypeParameter'}]
            entries = set()
            for sb in sw:
                # only second-level switches: the switch itself already sits under a TypeParameter arm (of the other argument)
                if guard_context(b, sb).get(GA) != {'TypeParameter'}:
                    continue
                st = b.term(sb)
                for nme, tg in st['ts']:
                    if nme == 'TypeParameter' and tg in region:
                        entries.add(tg)
            if not entries:
                continue
            n += 1
            walk = {wb for wb, wt in b.calls() if strip_generics(callee(wt) or '') in must or strip_generics(wt.get('res') or '') in must}
            heads = {hb for hb, ht in b.calls() if callee(ht) == 'core::iter::traits::iterator::Iterator::next' and hb in b.reachable(b.succ(hb))}
            # "goes on to the next pair": the loop head, or — when the per-pair code is a closure handed to all()/try_for_each() — returning
            # anything but the constant `false`
            falses = {bb for bb, j, st in b.all_assigns() if st['lhs'] == {'l': 0} and st['rv']['k'] == 'use' and st['rv']['op'].get('int') == '0'}
            goes_on = heads if heads else set(b.return_blocks())
            bad = [e for e in entries if e not in walk and (b.reachable(e, avoid=walk | falses) & goes_on)]
            ctx.ob('C17.R5', 'no-shortcut|%s|%s' % (famname, b.nid.replace(T, '')), not bad, b.loc(sorted(entries)[0]),
                   'from the (TypeParameter, TypeParameter) arm every path to the next pair of arguments passes the recursive comparison or the '
                   'generic registration/binding: %s' % ('yes' if not bad else 'NO — entry block(s) %s can skip it' % bad))
    ctx.floor('C17.R5', 'bodies with a (TypeParameter, TypeParameter) arm', n, 2)


def r6_render(ctx):
    ctx.rule('C17.R6', 'P8/P3 rendering: Type::render_into (+ GenericArgument::render_into) reads every field of every payload (rustdoc_id '
             'excepted) and never formats a nested type through Display/Debug — nested types are rendered only by the recursive call that '
             'threads the RenderConfig (otherwise crate aliases / lifetime erasure are lost below that node).')
    fns = [T + 'render::{impl rustdoc_ir::Type}::render_into', T + 'generic_argument::GenericArgument::render_into']
    bodies = []
    for fn in fns:
        bs = ctx.fb.bodies_of_item(CR, fn)
        ctx.need('C17.R6', fn, bs)
        bodies += bs
    reads = field_read_sites(bodies)
    for s in sorted(PAYLOADS):
        for fname, fty in adt_fields(ctx, s) or []:
            if (s, fname) == (T + 'path_type::PathType', 'rustdoc_id'):
                continue
            ctx.ob('C17.R6', 'rendered|%s.%s' % (s.split('::')[-1], fname), (s, fname) in reads, bodies[0].loc() if bodies else '',
                   'render_into reads %s.%s: %s' % (s.split('::')[-1], fname, (s, fname) in reads))
    n = 0
    for b in bodies:
        for bb, t in b.calls():
            c = callee(t) or ''
            if c.startswith('core::fmt::rt::Argument::new_'):
                n += 1
                ga = ' '.join(t.get('ga', []))
                hit = [r for r in RECURSIVE_TYPES if r in strip_generics(ga).replace('&', '').split() or ('<' + r + '>') in ga or ga.endswith(r)]
                hit = [r for r in RECURSIVE_TYPES if any(strip_generics(g).lstrip('&') in (r, 'alloc::boxed::Box') and r in g for g in t.get('ga', []))]
                ctx.ob('C17.R6', 'no-display-of-nested-type|%s' % (t.get('ga', ['?'])[-1]), not hit, b.loc(bb, t),
                       'formats a value of type %s through Display/Debug inside the renderer%s' % (t.get('ga'), '' if not hit else ': a nested type bypasses the RenderConfig'),
                       nontrivial=bool(hit))
    ctx.floor('C17.R6', 'format arguments inside the renderer (positive control)', n, 8)
    # one-element tuples: `(T)` is T in parentheses, so the Tuple arm must emit a comma when there is exactly one element
    main = ctx.fb.body(CR, fns[0])
    sws = [x for x in enum_switches(main, T + 'Type')] if main is not None else []
    if ctx.need('C17.R6', 'match on Type in render_into', sws):
        arm = switch_arms(main, sws[0][0]).get('Tuple', set())
        lens = {t['dest']['l'] for bb, t in main.calls() if bb in arm and callee(t) == 'alloc::vec::Vec::len' and not t['dest'].get('p')}
        commas = [bb for bb, t in main.calls() if bb in arm and (callee(t) or '').startswith('core::fmt::Arguments::from_str')
                  and any(isinstance(a, dict) and str(a.get('str', '')).strip() == ',' for a in t['args'])]
        ok = False
        where = main.loc(sws[0][0])
        defs = Defs(main)
        for bb, j, st in main.all_assigns():
            rv = st['rv']
            if bb not in arm or rv['k'] != 'bin' or rv['bop'] != 'Eq':
                continue
            ops = [rv['a'], rv['b']]
            one = [o for o in ops if isinstance(o, dict) and o.get('int') == '1']
            other = [op_place(o) for o in ops if op_place(o) is not None]
            if not one or not other:
                continue
            _, locs = backward_slice(main, other[0]['l'], defs, through_calls=False)
            if not ((locs | {other[0]['l']}) & lens):
                continue
            w = main.term(bb)
            if not w or w['k'] != 'switch':
                continue
            zero = [tg for v, tg in w['ts'] if v == '0']
            for cb in commas:
                if cb in main.reachable(w['else'], avoid=[bb]) and zero and cb not in main.reachable(zero[0], avoid=[bb]):
                    ok = True
                    where = main.loc(bb, st)
        ctx.ob('C17.R6', 'one-element-tuple-keeps-its-comma', ok, where,
               'the Tuple arm writes "," exactly when elements.len() == 1: %s (otherwise `(T,)` is rendered as `(T)`, which parses back as T)' % ok)


def r7_length_before_zip(ctx):
    ctx.rule('C17.R7', 'P1: in the structural comparisons every Iterator::zip over two argument/element/input lists is dominated by an equality '
             'test (== / != on usize) of two `len()` results whose "different" edge cannot reach the zip: zip stops at the shorter list, so without '
             'the arity test trailing elements of the longer side would be ignored (`Vec<T>` would match `Vec<u8, A>`).')
    n = 0
    LEN = ('alloc::vec::Vec::len', 'core::slice::{impl [T]}::len')
    for b in family_bodies(ctx, 'template') + family_bodies(ctx, 'equivalence'):
        if True:
            defs = Defs(b)
            lens = {}
            for bb, t in b.calls():
                if callee(t) in LEN and not t['dest'].get('p'):
                    lens[t['dest']['l']] = t['aty'][0]
            tests = []   # (switch block, target taken when the lengths differ, element types)
            for bb, j, st in b.all_assigns():
                rv = st['rv']
                if rv['k'] != 'bin' or rv['bop'] not in ('Eq', 'Ne'):
                    continue
                srcs = []
                for o in (rv['a'], rv['b']):
                    pl = op_place(o)
                    if pl is None:
                        continue
                    _, locs = backward_slice(b, pl['l'], defs, through_calls=False)
                    srcs.append({lens[l] for l in locs | {pl['l']} if l in lens})
                if len(srcs) != 2 or not srcs[0] or not srcs[1]:
                    continue
                w = b.term(bb)
                if not w or w['k'] != 'switch' or 'enum' in w:
                    continue
                zero = [tg for v, tg in w['ts'] if v == '0']
                if not zero:
                    continue
                differ = w['else'] if rv['bop'] == 'Ne' else zero[0]
                tests.append((bb, differ, srcs[0] | srcs[1]))
            # the same test kept in a flag: `let same_shape = a.abi == b.abi && a.inputs.len() == b.inputs.len(); same_shape && zip..` — a bool
            # local every definition of which is either `false` or (a copy of) the result of the length comparison is true only if the lengths agree
            eq_results = {}
            for bb, j, st in b.all_assigns():
                rv = st['rv']
                if rv['k'] == 'bin' and rv['bop'] == 'Eq' and not st['lhs'].get('p'):
                    srcs = []
                    for o in (rv['a'], rv['b']):
                        pl = op_place(o)
                        if pl is not None:
                            _, locs = backward_slice(b, pl['l'], defs, through_calls=False)
                            srcs.append({lens[l] for l in locs | {pl['l']} if l in lens})
                    if len(srcs) == 2 and srcs[0] and srcs[1]:
                        eq_results[st['lhs']['l']] = srcs[0] | srcs[1]

            def implied(l, depth=0):
                if l in eq_results:
                    return eq_results[l]
                ds = defs.full.get(l, [])
                if depth > 4 or not ds or b.locals[l] != 'bool':
                    return None
                tys, some = set(), False
                for _, _, nd in ds:
                    rv = nd.get('rv')
                    if not rv or rv['k'] != 'use':
                        return None
                    o = rv['op']
                    if o.get('int') == '0':
                        continue
                    q = op_place(o)
                    if q is None or q.get('p'):
                        return None
                    sub = implied(q['l'], depth + 1)
                    if sub is None:
                        return None
                    tys |= sub
                    some = True
                return tys if some else None
            for sb in b.live_blocks():
                w = b.term(sb)
                if not w or w['k'] != 'switch' or 'enum' in w:
                    continue
                q = op_place(w['d'])
                if q is None or q.get('p') or q['l'] in eq_results:
                    continue
                tys = implied(q['l'])
                zero = [tg for v, tg in w['ts'] if v == '0']
                if tys and zero:
                    tests.append((sb, zero[0], tys))
            for bb, t in b.calls():
                if callee(t) != 'core::iter::traits::iterator::Iterator::zip' or 'rustdoc_ir::' not in t['aty'][0]:
                    continue    # only lists of types / generic arguments / fn-pointer inputs
                n += 1
                elem = re.sub(r"^.*Iter<'_, |^&alloc::vec::Vec<|>$", '', t['aty'][0])
                ok = False
                why = 'no dominating length equality test'
                for tb, differ, tys in tests:
                    if not b.dominates(tb, bb) or not any(elem in ty for ty in tys):
                        continue
                    if bb in b.reachable(differ, avoid=[tb]):
                        why = 'the zip is reachable although the lengths differ (test at %s)' % b.loc(tb)
                        continue
                    ok = True
                    why = 'lengths compared for equality at %s; the zip is unreachable when they differ' % b.loc(tb)
                    break
                ctx.ob('C17.R7', 'arity|%s|zip#%d' % (b.nid.replace(T, ''), sum(1 for x in ctx.obs if x.key.startswith('arity|%s|' % b.nid.replace(T, ''))) + 1),
                       ok, b.loc(bb, t), 'zip over two lists of %s: %s' % (elem.split('::')[-1], why))
    ctx.floor('C17.R7', 'zip sites in the structural comparisons', n, 6)


def _side_of(b, defs, l, proj, depth=0):
    """which of the two compared values (parameter 1 = self, 2 = other) a place belongs to: follows copies / references, picks the right
    operand of a `(a, b)` tuple, and the right half of an item produced by `x.iter().zip(y.iter())`"""
    if depth > 12:
        return set()
    if 1 <= l <= b.raw['argc']:
        return {l} if l in (1, 2) else set()
    ds = defs.full.get(l, [])
    if len(ds) != 1:
        out = set()
        for _, _, n in ds[:4]:
            if 'rv' in n and n['rv']['k'] in ('use', 'ref'):
                q = n['rv'].get('pl') or op_place(n['rv']['op'])
                if q is not None:
                    out |= _side_of(b, defs, q['l'], list(q.get('p', [])) + proj, depth + 1)
        return out
    n = ds[0][2]
    if 'rv' in n:
        rv = n['rv']
        if rv['k'] == 'agg' and rv.get('ak') == 'tuple' and proj and proj[0].startswith('f:') and proj[0][2:].isdigit() and int(proj[0][2:]) < len(rv['ops']):
            q = op_place(rv['ops'][int(proj[0][2:])])
            return _side_of(b, defs, q['l'], list(q.get('p', [])) + proj[1:], depth + 1) if q else set()
        if rv['k'] in ('use', 'ref', 'cast'):
            q = rv.get('pl') or op_place(rv['op'])
            return _side_of(b, defs, q['l'], list(q.get('p', [])) + proj, depth + 1) if q else set()
        return set()
    c = callee(n) or ''
    if c == 'core::iter::traits::iterator::Iterator::next' and n['aty'] and 'Zip<' in n['aty'][0]:
        rest = [e for e in proj if e != '*']
        if rest[:2] == ['d:Some', 'f:0'] and len(rest) > 2 and rest[2] in ('f:0', 'f:1'):
            sl, _ = backward_slice(b, op_place(n['args'][0])['l'], defs)
            for cc, _, z in slice_calls(sl):
                if cc == 'core::iter::traits::iterator::Iterator::zip':
                    q = op_place(z['args'][0 if rest[2] == 'f:0' else 1])
                    _, locs = backward_slice(b, q['l'], defs) if q else ([], set())
                    return {x for x in (1, 2) if x in locs}
    out = set()
    for a in n.get('args', []):
        q = op_place(a)
        if q is not None:
            _, locs = backward_slice(b, q['l'], defs)
            out |= {x for x in (1, 2) if x in locs}
    return out


def r8_symmetric_tests(ctx):
    ctx.rule('C17.R8', 'P9 sibling agreement between the two operands: equivalence is a symmetric relation, so in the functions of the '
             'equivalence family that take the two values (self, other), an enum of rustdoc_ir that is tested (matched on) on one side only is '
             'a one-sided condition: `a ~ b` can then hold while `b ~ a` does not. A test counts for a side when its scrutinee is that '
             'parameter, a field of it, its half of a `(a, b)` tuple or its half of a zipped pair.')
    n = 0
    for b in family_bodies(ctx, 'equivalence'):
        if b.is_promoted or b.nid != b.nroot or b.raw['argc'] < 2 or not b.nid.split('::')[-1].lstrip('_').startswith('is_equivalent'):
            continue
        defs = Defs(b)
        sides = {}
        for sb in sorted(b.live_blocks()):
            w = b.term(sb)
            if not w or w['k'] != 'switch' or 'enum' not in w:
                continue
            e = strip_generics(w['enum'])
            if not e.startswith(CR + '::'):
                continue
            sd = _side_of(b, defs, w['src']['l'], list(w['src'].get('p', [])))
            if len(sd) == 1:
                sides.setdefault(e, {}).setdefault(next(iter(sd)), b.loc(sb))
        for e, m in sorted(sides.items()):
            n += 1
            ctx.ob('C17.R8', 'both-sides|%s|%s' % (b.nid.replace(T, ''), e.split('::')[-1]), set(m) == {1, 2}, m.get(1) or m.get(2),
                   '%s is matched on for %s' % (e.split('::')[-1], 'both operands' if set(m) == {1, 2} else
                                               'the %s operand only: the condition it guards is one-sided' % ('self' if 1 in m else 'other')))
    ctx.floor('C17.R8', 'enums tested per side in the equivalence functions', n, 1)


def r9_no_whole_value_shortcut(ctx):
    ctx.rule('C17.R9', 'P1/P3: equivalence is decided by walking the two types part by part, because the walk is what registers every generic '
             'parameter in the two id generators (the renaming must be a bijection over the WHOLE type). None of the equivalence functions '
             'compares its two operands as wholes with `==` — `self == other => true` skips the registration for the parameters inside the shared '
             'sub-term, after which `(Vec<T>, U)` is "equivalent" to `(Vec<T>, T)`. (The template relation has one documented shortcut of this '
             'kind, `concrete == self`; the equivalence relation has none.)')
    n = 0
    for b in family_bodies(ctx, 'equivalence'):
        if b.is_promoted or b.raw['argc'] < 2:
            continue
        n += 1
        defs = Defs(b)

        def whole_param(op):
            pl = op_place(op)
            for _ in range(8):
                if pl is None or any(e != '*' for e in pl.get('p', [])):
                    return None
                if 1 <= pl['l'] <= b.raw['argc']:
                    return pl['l']
                ds = defs.full.get(pl['l'], [])
                if len(ds) != 1 or 'rv' not in ds[0][2]:
                    return None
                rv = ds[0][2]['rv']
                pl = rv.get('pl') if rv['k'] == 'ref' else (op_place(rv['op']) if rv['k'] == 'use' else None)
            return None
        for bb, t in b.calls():
            c = callee(t) or ''
            if c not in ('core::cmp::PartialEq::eq', 'core::cmp::PartialEq::ne') or len(t['args']) != 2:
                continue
            sides = {whole_param(t['args'][0]), whole_param(t['args'][1])}
            if sides == {1, 2}:
                ctx.ob('C17.R9', 'whole-operands-compared|%s' % b.nid.replace(T, ''), False, b.loc(bb, t),
                       '%s compares `self` and `other` as wholes (%s): the verdict no longer comes from the walk that registers the generic parameters'
                       % (b.nid.split('::')[-1], t['aty'][0]))
    ctx.floor('C17.R9', 'equivalence functions with two operands', n, 2)
    ctx.ob('C17.R9', 'no-whole-value-shortcut', not [o for o in ctx.obs if o.rule == 'C17.R9' and o.key.startswith('whole-operands') and not o.ok], '',
           '%d equivalence function(s) scanned for `self == other`' % n)


def r10_accumulators_threaded(ctx):
    ctx.rule('C17.R10', 'P7 threading: the recursive walkers of rustdoc_ir (canonicalize, equivalence, template matching, binding) carry their state in `&mut` '
             'parameters (the lifetime counter, the generic counter, the name map, the two id generators, the bindings). Every recursive call hands '
             'each of them on in its own position, whether the call sits in the walker or in a closure of it: two counters of the same type swapped in '
             'one arm compile, and make names collide below that arm only (`(T, [U])` and `(T, [T])` get the same canonical form).')
    n = 0
    for famname in ('canonicalize', 'equivalence', 'template', 'bind'):
        for b0 in family_bodies(ctx, famname):
            if b0.is_promoted or b0.nid != b0.nroot:
                continue
            argc = b0.raw['argc']
            muts = [i for i in range(1, argc + 1) if b0.locals[i].startswith('&mut ')]
            if len(muts) < 2:
                continue
            bodies = [x for x in ctx.fb.bodies_of_item(CR, b0.nroot) if not x.is_promoted]
            for b in bodies:
                defs = Defs(b)
                # a closure of the walker reaches the walker's parameters through its captures: capture i <- the parent's local
                cap = {}
                if b.nid != b.nroot:
                    for pb in bodies:
                        for _, _, st in pb.all_assigns():
                            rv = st['rv']
                            if rv['k'] == 'agg' and rv.get('ak') == 'closure' and rv.get('def') and (b.id == rv['def'] or strip_generics(b.id) == strip_generics(rv['def'])):
                                pdefs = Defs(pb)
                                for i, o in enumerate(rv['ops']):
                                    q = op_place(o)
                                    _, locs = backward_slice(pb, q['l'], pdefs, through_calls=False) if q else ([], set())
                                    ps = {l for l in locs if 1 <= l <= pb.raw['argc']} if pb.nid == pb.nroot else set()
                                    if len(ps) == 1:
                                        cap[i] = list(ps)[0]
                for bb, t in b.calls():
                    c = strip_generics(callee(t) or '')
                    if c != b0.nroot or len(t['args']) != argc:
                        continue
                    n += 1
                    wrong = []
                    for k in muts:
                        q = op_place(t['args'][k - 1])
                        if q is None:
                            wrong.append((k, '?'))
                            continue
                        sl, locs = backward_slice(b, q['l'], defs, through_calls=False)
                        if b.nid == b.nroot:
                            src = {l for l in locs | {q['l']} if 1 <= l <= argc}
                        else:
                            src = set()
                            for _, _, nd in sl:
                                rv = nd.get('rv')
                                qq = rv.get('pl') if rv and rv['k'] in ('ref', 'cfd') else (op_place(rv['op']) if rv and rv['k'] == 'use' else None)
                                qp_ = [e for e in (qq.get('p') or []) if e != '*'] if qq else []
                                if qq and qq['l'] == 1 and qp_ and qp_[0].startswith('f:') and qp_[0][2:].isdigit():
                                    src.add(cap.get(int(qp_[0][2:]), -1))
                            qp = [e for e in (q.get('p') or []) if e != '*']
                            if q['l'] == 1 and qp and qp[0].startswith('f:') and qp[0][2:].isdigit():
                                src.add(cap.get(int(qp[0][2:]), -1))
                        if src != {k}:
                            wrong.append((k, sorted(src)))
                    ctx.ob('C17.R10', 'threaded|%s|bb%d%s' % (b0.nroot.replace(T, ''), bb, '' if b.nid == b.nroot else '|closure'), not wrong, b.loc(bb, t),
                           'recursive call of %s: every `&mut` parameter is handed on in its own position%s' % (
                               b0.nroot.split('::')[-1], '' if not wrong else ' — NOT: parameter(s) %s receive the caller\'s parameter(s) %s' % ([k for k, _ in wrong], [v for _, v in wrong])))
    ctx.floor('C17.R10', 'recursive calls of walkers with two or more `&mut` parameters', n, 1)


def r11_lifetime_names_are_fresh(ctx):
    ctx.rule('C17.R11', 'P7 provenance: the canonical form is the key under which pavexc files constructors, error handlers and bindings, and it ignores how '
             'lifetimes are spelled: every non-static lifetime OCCURRENCE gets the next name of the lifetime counter (`&\'a str, &\'a str` and `&str, &str` '
             'are the same key). In the canonicalize family a lifetime value is therefore never computed from the name map (or any other map): a map '
             'keyed by the old name would make `HashMap<&\'a str, &\'a str>` and `HashMap<&str, &str>` different types to the constructor lookup.')
    fam = family_bodies(ctx, 'canonicalize')
    fam_items = {b.nroot for b in fam}
    uses_map = {}
    for b in fam:
        if any((callee(t) or '').startswith('std::collections::hash::map::') or 'HashMap' in ((t['aty'] or [''])[0]) and (callee(t) or '').split('::')[-1] in ('get', 'entry', 'insert', 'get_mut', 'contains_key')
               for _, t in b.calls()):
            uses_map[b.nroot] = True
    # closure: a helper that calls a map-using helper uses the map
    changed = True
    while changed:
        changed = False
        for b in fam:
            if b.nroot in uses_map:
                continue
            if any(strip_generics(callee(t) or '') in uses_map for _, t in b.calls()):
                uses_map[b.nroot] = True
                changed = True
    LT = ('rustdoc_ir::lifetime::Lifetime', 'rustdoc_ir::generic_argument::GenericLifetimeParameter', 'rustdoc_ir::lifetime::NamedLifetime')
    n = 0
    for b in fam:
        defs = None
        for bb, j, st in b.all_assigns():
            rv = st['rv']
            if rv['k'] == 'agg' and rv.get('ak') == 'adt' and strip_generics(rv['adt']).split('::')[-1] in ('Lifetime', 'GenericLifetimeParameter') and rv.get('var') == 'Named' and rv.get('ops'):
                n += 1
                defs = defs or Defs(b)
                q = op_place(rv['ops'][0])
                sl, _ = backward_slice(b, q['l'], defs) if q else ([], set())
                cs = {strip_generics(c) for c, _, _ in slice_calls(sl) if c}
                via_map = sorted(c for c in cs if c in uses_map or c.startswith('std::collections::hash::map::') or c.startswith('hashbrown::'))
                ctx.ob('C17.R11', 'fresh-lifetime|%s|bb%d' % (b.nroot.replace(T, ''), bb), not via_map, b.loc(bb, st),
                       'the canonical lifetime built here derives from %s' % ('the counter only' if not via_map else 'a map lookup (%s): occurrences of the same source lifetime share a name' % via_map))
    ctx.floor('C17.R11', 'canonical lifetimes built in the canonicalize family', n, 2)


KEY_OPS = {'get', 'entry', 'insert', 'contains_key', 'get_mut', 'get_index_of', 'contains', 'get_or_insert_with', 'get_by_left', 'get_by_right',
           'insert_no_overwrite', 'contains_left', 'contains_right', 'get_full', 'insert_full', 'replace'}


def _keyed_params(ctx):
    """rustdoc_ir functions -> the parameter positions (1-based) whose value is used as the key of a map / set operation"""
    out = {}
    for b in ctx.fb.bodies(CR):
        if b.is_promoted or b.nid != b.nroot or b.raw['argc'] < 2:
            continue
        defs = None
        for bb, t in b.calls():
            c = callee(t) or ''
            if c.split('::')[-1] not in KEY_OPS or not t.get('aty') or not any(m in t['aty'][0] for m in ('Map<', 'Set<')) or len(t['args']) < 2:
                continue
            keys = t['args'][1:3] if 'Bi' in t['aty'][0] and c.endswith('insert') else t['args'][1:2]
            for a in keys:
                q = op_place(a)
                if q is None:
                    continue
                defs = defs or Defs(b)
                _, locs = backward_slice(b, q['l'], defs, through_calls=False)
                for l in locs | {q['l']}:
                    if 2 <= l <= b.raw['argc']:
                        out.setdefault(b.nroot, set()).add(l)
    return out


def r12_both_operands_are_keys(ctx):
    ctx.rule('C17.R12', 'P9 operand symmetry of the bookkeeping: two types are equivalent when their generic parameters correspond ONE TO ONE, so the '
             'correspondence has to be checked in both directions: in every equivalence function that registers generic names (directly, or '
             'through a helper such as an id generator), names taken from the `self` operand AND names taken from the `other` operand are used '
             'as keys of a map / set lookup. With one map keyed by the self-side name only, `Pair<T, U>` ~ `Pair<A, A>` holds (T->A, U->A) while '
             '`Pair<A, A>` ~ `Pair<T, U>` does not: the relation is neither symmetric nor injective.')
    keyed = _keyed_params(ctx)
    n = 0
    for b0 in family_bodies(ctx, 'equivalence'):
        if b0.is_promoted or b0.nid != b0.nroot or b0.raw['argc'] < 2 or not b0.nid.split('::')[-1].lstrip('_').startswith('is_equivalent'):
            continue
        sides, where = set(), None
        for b in [x for x in ctx.fb.bodies_of_item(CR, b0.nroot) if not x.is_promoted and x.nid == x.nroot]:
            defs = Defs(b)
            for bb, t in b.calls():
                c = strip_generics(callee(t) or '')
                ks = keyed.get(c)
                if not ks or c == b0.nroot:
                    continue
                for k in ks:
                    if k - 1 >= len(t['args']):
                        continue
                    q = op_place(t['args'][k - 1])
                    if q is None:
                        continue
                    sd = _side_of(b, defs, q['l'], list(q.get('p', [])))
                    if sd:
                        sides |= sd
                        where = where or b.loc(bb, t)
        if not where:
            continue
        n += 1
        ctx.ob('C17.R12', 'both-operands-keyed|%s' % b0.nid.replace(T, ''), sides == {1, 2}, where,
               '%s registers generic names; names used as lookup keys come from %s' % (b0.nid.split('::')[-2] + '::' + b0.nid.split('::')[-1],
               'both operands' if sides == {1, 2} else 'the %s operand only: the correspondence is checked in one direction' % ('self' if sides == {1} else 'other')))
    ctx.floor('C17.R12', 'equivalence functions that register generic names', n, 1)


# comparisons by derived equality between a value of the template and a value of the concrete type, in the template-matching family:
# (function, compared type) -> (count, why derived equality is the right relation there)
REVIEWED_TEMPLATE_EQ = {
    ('type_::{impl Type}::_is_a_template_for', 'Type'): (1, 'the `concrete == self` shortcut at the top: identical types match with no bindings (the concrete side is never generic in pavexc\'s calls)'),
    ('path_type::PathType::_is_a_resolved_path_type_template_for', 'ConstGenericArgument'): (1, 'const generic arguments have no structure to bind: equality is the relation'),
    ('type_::{impl Type}::_is_a_template_for', 'ScalarPrimitive'): (1, 'scalar primitives carry neither lifetimes nor parameters: equality is the relation'),
}


def r13_template_roles_and_relation(ctx):
    ctx.rule('C17.R13', 'P9 operand roles in the template matcher: `template.is_a_template_for(concrete)` is asymmetric — generic parameters are bound on the '
             'TEMPLATE side only, lifetimes and rustdoc ids are ignored. (a) Every recursive call in the family keeps the roles: the receiver is '
             'a part of the template operand, the argument the corresponding part of the concrete operand (swapped, `Rejection<Json<T>>` no longer '
             'matches `Rejection<Json<Payload>>` and a later catch-all handler is wired instead). (b) Parts of the two operands are never compared '
             'by derived equality (`==` on Type / GenericArgument sees how lifetimes are spelled; matching does not: with an `==` fast path for '
             '"fully assigned" arguments the nearest generic constructor stops matching `Tagged<T, Cow<\'_, str>>` and the scope walk silently '
             'answers with the parent\'s) — except at the reviewed sites.')
    fam = [b for b in family_bodies(ctx, 'template') if not b.is_promoted]
    n_rec, n_eq = 0, {}
    where = {}
    for b in fam:
        defs = Defs(b)
        is_closure = b.nid != b.nroot
        zip_sides = None
        if is_closure:
            # the closure's item is one element of `a.iter().zip(b.iter())` in the parent: its halves inherit the sides of the zip's operands
            for pb in fam:
                if pb.nid != b.nroot:
                    continue
                pdefs = Defs(pb)
                for _, _, st in pb.all_assigns():
                    rv = st['rv']
                    if rv['k'] == 'agg' and rv.get('ak') == 'closure' and strip_generics(rv.get('def', '')) == b.nid:
                        for ab, at in pb.calls():
                            if any(op_place(a) == st['lhs'] for a in at['args'][1:]) and at['args']:
                                q = op_place(at['args'][0])
                                sl, _ = backward_slice(pb, q['l'], pdefs) if q else ([], set())
                                for c, _, z in slice_calls(sl):
                                    if c == 'core::iter::traits::iterator::Iterator::zip':
                                        zs = []
                                        for a in z['args'][:2]:
                                            qa = op_place(a)
                                            _, locs = backward_slice(pb, qa['l'], pdefs) if qa else ([], set())
                                            zs.append({x for x in (1, 2) if x in locs})
                                        zip_sides = zs

        def side(op):
            q = op_place(op)
            if q is None:
                return set()
            if not is_closure:
                return _side_of(b, defs, q['l'], list(q.get('p', [])))
            if zip_sides is None:
                return set()
            # follow copies back to a projection of the closure's item (local 2)
            cur, proj = q, list(q.get('p', []))
            for _ in range(12):
                if cur['l'] == 2:
                    fs = [e for e in proj if e.startswith('f:')]
                    if fs and fs[0] in ('f:0', 'f:1'):
                        return zip_sides[int(fs[0][2:])]
                    return set()
                ds = defs.full.get(cur['l'], [])
                if len(ds) != 1 or 'rv' not in ds[0][2]:
                    return set()
                rv = ds[0][2]['rv']
                nxt = rv.get('pl') or (op_place(rv['op']) if rv['k'] in ('use', 'cast') else None)
                if nxt is None:
                    return set()
                proj = list(nxt.get('p', [])) + proj
                cur = nxt
            return set()

        for bb, t in b.calls():
            c = strip_generics(callee(t) or '')
            if c.endswith('_template_for') and len(t['args']) >= 2:
                s0, s1 = side(t['args'][0]), side(t['args'][1])
                if len(s0) == 1 and len(s1) == 1:
                    n_rec += 1
                    ok = (s0, s1) == ({1}, {2})
                    ctx.ob('C17.R13', 'roles-kept|%s|bb%d' % (b.nid.replace(T, ''), bb), ok, b.loc(bb, t),
                           'recursive call of %s: receiver from the %s operand, argument from the %s operand' % (
                               c.split('::')[-1], 'template' if s0 == {1} else 'CONCRETE', 'concrete' if s1 == {2} else 'TEMPLATE'))
            elif callee(t) in ('core::cmp::PartialEq::eq', 'core::cmp::PartialEq::ne') and t.get('aty') and len(t['args']) == 2:
                ty = strip_generics(t['aty'][0]).lstrip('&')
                if not ty.startswith(CR + '::'):
                    continue
                s0, s1 = side(t['args'][0]), side(t['args'][1])
                if len(s0) == 1 and len(s1) == 1 and s0 != s1:
                    k = (b.nroot.replace(T, ''), ty.split('::')[-1])
                    n_eq[k] = n_eq.get(k, 0) + 1
                    where.setdefault(k, b.loc(bb, t))
    for k, cnt in sorted(n_eq.items()):
        rev = REVIEWED_TEMPLATE_EQ.get(k)
        ctx.ob('C17.R13', 'no-derived-equality-across-operands|%s|%s' % k, rev is not None and cnt <= rev[0], where[k],
               '%d comparison(s) by derived equality between a part of the template and a part of the concrete %s in %s: %s' % (
                   cnt, k[1], k[0], ('reviewed (%d) — %s' % rev) if rev else 'NOT REVIEWED: `==` is stricter than template matching (lifetime spelling, rustdoc ids)'))
    ctx.floor('C17.R13', 'recursive calls of the template matcher with both roles determined', n_rec, 6)


CHILD_BEARING = {'Path', 'TypeAlias', 'Reference', 'Tuple', 'Slice', 'Array', 'RawPointer', 'FunctionPointer'}


def r14_recursive_walkers_are_total(ctx):
    ctx.rule('C17.R14', 'P5 exhaustiveness of the structural recursion: every function of rustdoc_ir that walks a `Type` recursively (it takes the type as '
             '`self`, matches on it and calls itself on nested types — predicates, collectors, rewriters, the canonicaliser) names EVERY variant '
             'that has nested types (Path, TypeAlias, Reference, Tuple, Slice, Array, RawPointer, FunctionPointer) in its match: none of them is '
             'left to a catch-all arm. A predicate "nothing to rename here" whose `_ => false` swallows Tuple makes `Holder<(Cow<\'a, str>, u32)>` '
             'its own canonical form, so the `\'a` and `\'_` spellings are different keys, a generic request-scoped constructor is specialised '
             'twice and runs twice per request.')
    n = 0
    for b in ctx.fb.bodies(CR):
        if b.is_promoted or b.nid != b.nroot or b.raw['argc'] < 1:
            continue
        if not re.match(r'^&(mut )?rustdoc_ir::Type$', strip_generics(b.locals[1]).replace("'_ ", '').replace("'a ", '')) and 'rustdoc_ir::Type' not in b.locals[1]:
            continue
        if not b.locals[1].lstrip('&').replace('mut ', '').startswith('rustdoc_ir::Type'):
            continue
        bodies = [x for x in ctx.fb.bodies_of_item(CR, b.nroot) if not x.is_promoted]
        if not any(strip_generics(callee(t) or '') == b.nroot for x in bodies for _, t in x.calls()):
            continue
        sws = [(sb, w) for sb, w in enum_switches(b, 'rustdoc_ir::Type') if w['src']['l'] == 1 and w['src'].get('p') == ['*']]
        if not sws:
            continue
        # the primary match: the switch on `*self` that dominates the others
        prim = [x for x in sws if all(b.dominates(x[0], y[0]) for y in sws)]
        if not prim:
            continue
        sb, w = prim[0]
        n += 1
        explicit = {nm for nm, _ in w['ts']}
        left = sorted(CHILD_BEARING - explicit)
        ctx.ob('C17.R14', 'total|%s' % b.nid.replace(T, ''), not left, b.loc(sb),
               '%s matches on its type and names every variant with nested types%s' % (b.nid.split('::')[-1], '' if not left else ' — NO: %s fall into the catch-all arm' % left))
    ctx.floor('C17.R14', 'recursive single-operand walkers over Type', n, 8)


def r15_scalar_spellings(ctx):
    ctx.rule('C17.R15', 'P9 table against the language: a `ScalarPrimitive` renders as the Rust keyword of its variant — `ScalarPrimitive::as_str` maps every '
             'variant V to the lower-cased name of V (`I32` -> "i32", `Isize` -> "isize", `Bool` -> "bool" ..), which is what every renderer writes into '
             'generated code and what `syn` must parse back to the same type. The reader (`TryFrom<&str>`) agreeing with the writer is not enough: two '
             'index-aligned tables that are shifted against each other still round-trip through each other while `I32` is rendered as `i64`. When '
             'the mapping is not a `match` the rule can read (a table lookup), it says so instead of passing.')
    b = ctx.fb.body(CR, 'rustdoc_ir::scalar_primitive::ScalarPrimitive::as_str')
    if not ctx.need('C17.R15', 'ScalarPrimitive::as_str', b):
        return
    sws = list(enum_switches(b, 'rustdoc_ir::scalar_primitive::ScalarPrimitive'))
    if not ctx.need('C17.R15', 'match on the variant in ScalarPrimitive::as_str (a table lookup cannot be read)', sws):
        return
    from ..tables import variant_table
    from ..flow import promoted_strs
    vt = variant_table(b, sws[0][0])
    n = 0
    for var, f in sorted(vt.items()):
        strs = [x for x in f['strs']]
        for _, _, st in [(0, 0, s_) for bb_ in f['blocks'] for s_ in b.stmts(bb_)]:
            rv = st.get('rv')
            if rv:
                for o in rv_operands(rv)[0]:
                    if isinstance(o, dict) and o.get('promoted') is not None:
                        strs += [x for x in promoted_strs(ctx.fb, b, int(o['promoted'])) if not x.startswith('const:')]
        strs = sorted(set(strs))
        if f['unreachable'] and not strs:
            continue
        n += 1
        ctx.ob('C17.R15', 'spelling|%s' % var, strs == [var.lower()], b.loc(sws[0][0]), 'ScalarPrimitive::%s is written as %s (the keyword is `%s`)' % (var, strs, var.lower()))
    ctx.floor('C17.R15', 'scalar primitives with a spelling', n, 15)


def r16_equality_is_structural(ctx):
    ctx.rule('C17.R16', 'P3/P8 on the trait impls: the laws (reflexivity, symmetry, substitution, rendering) are stated up to `==` on `Type`, and the lookup maps '
             'are keyed by canonical forms through `Hash`: for every ADT reachable from `rustdoc_ir::Type` through its fields, `PartialEq`, `Eq` and `Hash` '
             'are the DERIVED structural ones. A hand-written impl is where two different types become "equal" (and collide as keys) while they still render '
             'differently; the rule cannot judge such an impl and fails closed on it.')
    import re
    fb = ctx.fb
    CRATE = 'rustdoc_ir'
    adts = {a['id']: a for a in fb.adts(CRATE)}
    root = 'rustdoc_ir::Type'
    if root not in adts:
        ctx.need('C17.R16', 'ADT rustdoc_ir::Type', None)
        return
    seen, work = {root}, [root]
    while work:
        a = adts[work.pop()]
        for v in a.get('variants', []):
            for f in v.get('fields', []):
                for m in re.findall(r'rustdoc_ir::[A-Za-z0-9_:]+', f['ty']):
                    if m in adts and m not in seen:
                        seen.add(m)
                        work.append(m)
    ctx.count('adts_reachable_from_Type', len(seen))
    ctx.floor('C17.R16', 'ADTs reachable from Type', len(seen), 12)
    impls = {}
    for i in fb.impls(CRATE, 'Rlib'):
        impls.setdefault((strip_generics(i.get('self') or ''), i.get('trait') or ''), []).append(i)
    for a in sorted(seen):
        for tr in ('core::cmp::PartialEq', 'core::cmp::Eq', 'core::hash::Hash'):
            got = impls.get((a, tr), [])
            ok = len(got) == 1 and bool(got[0].get('derived'))
            ctx.ob('C17.R16', 'structural|%s|%s' % (a.split('::')[-1], tr.split('::')[-1]), ok, '%s:%s' % (adts[a]['file'], adts[a]['ln']),
                   'derived' if ok else ('hand-written impl in %s' % got[0].get('file') if got else 'no impl found'))


def check(ctx):
    r16_equality_is_structural(ctx)
    r15_scalar_spellings(ctx)
    r14_recursive_walkers_are_total(ctx)
    r13_template_roles_and_relation(ctx)
    r12_both_operands_are_keys(ctx)
    r4_bindings_compared_by_equality(ctx)
    r5_no_shortcut_around_recursion(ctx)
    r6_render(ctx)
    r1_field_coverage(ctx)
    r2_field_preservation(ctx)
    r3_canonical_constructor(ctx)
    r7_length_before_zip(ctx)
    r8_symmetric_tests(ctx)
    r9_no_whole_value_shortcut(ctx)

    r10_accumulators_threaded(ctx)
    r11_lifetime_names_are_fresh(ctx)


CLAUSE += ' Also: PartialEq / Eq / Hash of every ADT reachable from Type are the derived ones.'
