#!/usr/bin/env python3
"""import_refactor.py <dir> <name>: keep a behaviour-preserving refactor (written by an independent sub-agent that saw only the property text
and a scratch worktree) as /verif/refactors/<name>/ and record what ALL twenty checks say about it: a correct checker stays silent.
Applies the patch to /repo, runs every check, always reverts."""
import json, os, re, shutil, subprocess, sys
src, name = sys.argv[1], sys.argv[2]
VERIF = os.path.dirname(os.path.dirname(os.path.abspath(__file__)))
dst = os.path.join(VERIF, 'refactors', name)
os.makedirs(dst, exist_ok=True)
shutil.copy(os.path.join(src, 'patch.diff'), os.path.join(dst, 'patch.diff'))
meta = json.load(open(os.path.join(src, 'meta.json')))
def sh(cmd, cwd='/repo'):
    return subprocess.run(cmd, shell=True, cwd=cwd, stdout=subprocess.PIPE, stderr=subprocess.STDOUT, text=True)
assert not sh('git status --porcelain --untracked-files=no').stdout.strip(), '/repo is dirty'
alarms, applied = {}, True
try:
    r = sh('git apply %s' % os.path.join(dst, 'patch.diff'))
    if r.returncode != 0:
        r = sh('git apply -3 %s' % os.path.join(dst, 'patch.diff'))
    applied = r.returncode == 0
    if applied:
        for i in range(1, 21):
            p = 'C%02d' % i
            c = sh('./check %s --tier quick' % p, cwd=VERIF)
            if 'VIOLATION property=' in c.stdout or c.returncode != 0:
                alarms[p] = sorted(set('%s %s' % x for x in re.findall(r'^\s+(C\d+\.R\w+) (\S+)', c.stdout, re.M))) or [c.stdout[-300:]]
finally:
    sh('git reset -q; git checkout -q -- .; git clean -fdq -- compiler runtime rustdoc')
out = {'kind': 'refactor', 'property': meta.get('property'), 'origin': 'independent sub-agent given only the property text and a scratch worktree; asked for behaviour-preserving changes',
       'summary': meta.get('summary'), 'why_behaviour_preserving': meta.get('why_behaviour_preserving'), 'ran_by_agent': meta.get('ran'),
       'check_result': {'applies': applied, 'silent': applied and not alarms, 'alarms': alarms,
                        'at_import': {'applies': applied, 'silent': applied and not alarms, 'alarms': alarms}}}
json.dump(out, open(os.path.join(dst, 'meta.json'), 'w'), indent=1)
print(name, 'NO-APPLY' if not applied else ('silent' if not alarms else 'ALARM %s' % alarms))
