#!/usr/bin/env python3
"""Regenerates /verif/MANIFEST.json from the rule modules' metadata (CLAUSE / TRUSTED / DESIGN_REF) and NOT_APPLICABLE below."""
import importlib, json, os, sys
HERE = os.path.dirname(os.path.dirname(os.path.abspath(__file__)))
sys.path.insert(0, HERE)
ALL = ['C%02d' % i for i in range(1, 21)]
NA_REASON = {}
na_file = os.path.join(HERE, 'not_applicable.json')
if os.path.exists(na_file):
    NA_REASON = json.load(open(na_file))
checks, na = [], []
for pid in ALL:
    path = os.path.join(HERE, 'pvx', 'rules', pid.lower() + '.py')
    if pid in NA_REASON or not os.path.exists(path):
        na.append({'property_id': pid, 'reason': NA_REASON.get(pid, 'no static rule implemented for this property yet (see DESIGN.md section 4 for the planned clause)')})
        continue
    mod = importlib.import_module('pvx.rules.' + pid.lower())
    checks.append({
        'property_id': pid,
        'quick_cmd': './check %s --tier quick' % pid,
        'thorough_cmd': './check %s --tier thorough' % pid,
        'evidence_file': 'evidence/%s.json' % pid,
        'replay_cmd_template': './check %s --replay {path}' % pid,
        'engine': 'pvx-facts+pvx-rules',
        'level_claimed': {
            'category': getattr(mod, 'LEVEL', 'other'),
            'text': 'Static analysis (custom rules over rustc MIR facts of the whole workspace). Decides a structural, necessary clause of the property on every path of the implementation: ' + mod.CLAUSE + ' It does not decide the behavioural property as a whole; the declined clauses are listed in DESIGN.md section 5.',
            'design_ref': 'DESIGN.md section 4, ' + pid,
        },
        'level_note': 'Trusted: rustc MIR construction/trait resolution, the rule-free extractor; ' + '; '.join(getattr(mod, 'TRUSTED', [])) + '. cfg(test) code and disabled features are outside the fact base.',
        'technique': getattr(mod, 'TECHNIQUE', 'static analysis: custom MIR dataflow/CFG rules (rustc_private driver + rule engine)'),
    })
man = {
    'version': 1,
    'setup_cmd': './setup.sh',
    'hooks': {'guard': '--cfg pavex_verif', 'enable': 'none needed: the analysis reads MIR of the unmodified sources; no hook commits exist',
              'baseline_off_cmd': 'cd /repo && cargo nextest run --workspace --no-fail-fast --test-threads 8 --offline || cargo test --workspace --no-fail-fast --offline',
              'source_commits': [], 'add_only': True},
    'engines': [
        {'name': 'pvx-facts', 'path': 'engine/facts', 'serves_properties': [c['property_id'] for c in checks],
         'kind_free_text': 'rustc_private driver (nightly) injected via RUSTC_WORKSPACE_WRAPPER; dumps ADTs, impls and mir_promoted bodies of every workspace crate as JSON facts'},
        {'name': 'pvx-rules', 'path': 'pvx', 'serves_properties': [c['property_id'] for c in checks],
         'kind_free_text': 'Python rule engine: CFG reachability/dominance, provenance slices, typestate, table extraction; obligations, floors, known findings, evidence'},
    ],
    'checks': checks,
    'not_applicable': na,
    'notes': 'Technique family: static analysis only. Every check re-extracts facts when /repo sources changed (content hash) and fails closed on missing anchors.',
}
json.dump(man, open(os.path.join(HERE, 'MANIFEST.json'), 'w'), indent=1)
print('checks:', [c['property_id'] for c in checks], 'n/a:', len(na))
