#!/usr/bin/env python3
"""Writes /verif/fingerprints.json: for every hand-written function of the analysed crates, what identifies it besides its name
(kind, impl self type, parent path, parameter and return types, the set of functions it calls). The rule engine uses it to recognise
a function that was merely RENAMED (pvx/facts.py): the rules keep addressing it by the name they were written against.
Regenerate after a reviewed change of /repo: python3 bin/gen_fingerprints.py"""
import json, os, sys
HERE = os.path.dirname(os.path.dirname(os.path.abspath(__file__)))
sys.path.insert(0, HERE)
from pvx.engine import ensure_facts
from pvx.facts import FactBase, fingerprint_of
CRATES = [('pavex', 'Rlib'), ('pavexc', 'Rlib'), ('pavexc', 'Executable'), ('pavex_macros', 'ProcMacro'), ('pavex_session', 'Rlib'),
          ('pavex_session_memory_store', 'Rlib'), ('pavex_session_sqlx', 'Rlib'), ('pavex_session_redis', 'Rlib'), ('persist_if_changed', 'Rlib'),
          ('rustdoc_ir', 'Rlib'), ('rustdoc_processor', 'Rlib'), ('pavex_bp_schema', 'Rlib'), ('pavexc_attr_parser', 'Rlib')]
fdir, _ = ensure_facts(verbose=False)
fb = FactBase(fdir, use_fingerprints=False)
out = {}
for name, ct in CRATES:
    if (name, ct) not in fb.available():
        continue
    tab = {}
    for b in fb.bodies(name, ct):
        if b.is_promoted or b.nid != b.nroot or b.raw.get('dk') not in ('Fn', 'AssocFn') or b.raw.get('exp'):
            continue
        tab[b.nid] = fingerprint_of(b)
    out['%s/%s' % (name, ct)] = tab
json.dump(out, open(os.path.join(HERE, 'fingerprints.json'), 'w'), indent=0, sort_keys=True)
print({k: len(v) for k, v in out.items()})
