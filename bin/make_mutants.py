#!/usr/bin/env python3
"""make_mutants.py [name ...]: hand-written one-instance mutants for rules that no independent seed exercises.
For each mutant: edit /repo in place, save `git diff` as seeded/mut-<name>/patch.diff, run the property's check, ALWAYS revert.
A mutant must still type-check (extraction succeeds) and must be reported by the named rule. Writes seeded/mut-<name>/meta.json."""
import json, os, re, subprocess, sys
VERIF = os.path.dirname(os.path.dirname(os.path.abspath(__file__)))
R = '/repo/'
M = [
    # (name, property, expected rule prefix, file, old, new, what)
    ('C05-stage-order', 'C05', 'C05.R3', 'compiler/pavexc/src/compiler/analyses/processing_pipeline/pipeline.rs',
     '''        self.pre_processing_ids
            .iter()
            .cloned()
            .chain(std::iter::once(self.middle_id))
            .chain(self.post_processing_ids.iter().cloned())''',
     '''        self.post_processing_ids
            .iter()
            .cloned()
            .chain(std::iter::once(self.middle_id))
            .chain(self.pre_processing_ids.iter().cloned())''', 'StageIds::invocation_order yields post ++ [middle] ++ pre'),
    ('C05-posts-not-reversed', 'C05', 'C05.R3', 'compiler/pavexc/src/compiler/analyses/processing_pipeline/pipeline.rs',
     '''        for stage_ids in self.0.iter().rev() {
            ordered.extend(stage_ids.post_processing_ids.iter().cloned());''',
     '''        for stage_ids in self.0.iter() {
            ordered.extend(stage_ids.post_processing_ids.iter().cloned());''', 'post-processors of outer stages are ordered before those of inner stages'),
    ('C06-transformers-before-matchers', 'C06', 'C06.R1', 'compiler/pavexc/src/compiler/analyses/components/db/mod.rs', None, None, 'see code: swap handled below'),
    ('C11-new-id-returns-old', 'C11', 'C11.R3', 'runtime/sessions/pavex_session/src/session_.rs',
     '            Self::ToBeRenamed { new, .. } => *new,', '            Self::ToBeRenamed { old, .. } => *old,', 'new_id() returns the old id while a rename is pending'),
    ('C11-store-call-outside-sync', 'C11', 'C11.R4', 'runtime/sessions/pavex_session/src/session_.rs',
     '''    pub fn delete(&mut self) {
        self.server_state = new_cell_with(Some(ServerState::MarkedForDeletion));''',
     '''    pub fn delete(&mut self) {
        if let Some(id) = self.id.old_id() {
            std::mem::drop(self.store.delete(&id));
        }
        self.server_state = new_cell_with(Some(ServerState::MarkedForDeletion));''', 'Session::delete talks to the store directly'),
    ('C12-cookie-built-in-middleware', 'C12', 'C12.R2', 'runtime/sessions/pavex_session/src/middleware.rs',
     '        response_cookies.insert(cookie);\n    }',
     '        response_cookies.insert(cookie);\n    } else if must_encrypt {\n        response_cookies.insert(pavex::cookie::ResponseCookie::new("session-hint", "1"));\n    }', 'a second, unprotected cookie is emitted by the middleware'),
    ('C13-raw-map-read', 'C13', 'C13.R3', 'runtime/sessions/pavex_session_memory_store/src/lib.rs',
     '''        let mut guard = self.0.lock().await;
        let outcome = match Self::get_mut_if_fresh(&mut guard, session_id) {''',
     '''        let mut guard = self.0.lock().await;
        if guard.get(session_id).is_none() {
            return Ok(None);
        }
        let outcome = match Self::get_mut_if_fresh(&mut guard, session_id) {''', 'load() reads the map without going through the staleness-guarded accessor'),
    ('C14-raw-body-collected-elsewhere', 'C14', 'C14.R2', 'runtime/pavex/src/request/body/json.rs', None, None, 'handled below'),
    ('C16-connection-not-watched', 'C16', 'C16.R3', 'runtime/pavex/src/server/worker.rs',
     'shutdown_coordinator.watch(builder.serve_connection(connection, handler).into_owned());', 'builder.serve_connection(connection, handler).into_owned();', 'served connections are not registered with the graceful-shutdown coordinator'),
    ('C16-connections-polled-first', 'C16', 'C16.R4', 'runtime/pavex/src/server/worker.rs',
     '''        if let Poll::Ready(Some(message)) = shutdown_inbox.poll_recv(cx) {
            return Poll::Ready(message.into());
        }
        if let Poll::Ready(Some(message)) = connection_inbox.poll_recv(cx) {
            return Poll::Ready(message.into());
        }''',
     '''        if let Poll::Ready(Some(message)) = connection_inbox.poll_recv(cx) {
            return Poll::Ready(message.into());
        }
        if let Poll::Ready(Some(message)) = shutdown_inbox.poll_recv(cx) {
            return Poll::Ready(message.into());
        }''', 'the worker polls the connection inbox before the shutdown inbox'),
    ('C16-handle-does-not-await', 'C16', 'C16.R5', 'runtime/pavex/src/server/server_handle.rs',
     '            let _ = completion.await;\n        }\n    }\n}\n\nimpl IntoFuture', '            drop(completion);\n        }\n    }\n}\n\nimpl IntoFuture', 'ServerHandle::shutdown returns without awaiting completion'),
    ('C17-bind-drops-mutability', 'C17', 'C17.R2', 'rustdoc/rustdoc_ir/src/type_.rs',
     '''            Type::Reference(r) => Type::Reference(TypeReference {
                is_mutable: r.is_mutable,
                inner: Box::new(r.inner.bind_generic_type_parameters(bindings)),''',
     '''            Type::Reference(r) => Type::Reference(TypeReference {
                is_mutable: false,
                inner: Box::new(r.inner.bind_generic_type_parameters(bindings)),''', 'substitution turns every reference into a shared one'),
    ('C19-lifecycle-table-swapped', 'C19', 'C19.R2', 'runtime/pavex/src/blueprint/conversions.rs',
     '        Lifecycle::Transient => pavex_bp_schema::Lifecycle::Transient,', '        Lifecycle::Transient => pavex_bp_schema::Lifecycle::RequestScoped,', 'transient is recorded as request-scoped'),
    ('C03-request-table', 'C03', 'C03.R1', 'compiler/pavexc/src/compiler/analyses/call_graph/request_scoped.rs',
     '            Lifecycle::RequestScoped => Some(NumberOfAllowedInvocations::One),', '            Lifecycle::RequestScoped => Some(NumberOfAllowedInvocations::Multiple),', 'request-scoped constructors may run once per injection site'),
    ('C04-clone-ignores-policy', 'C04', 'C04.R3', 'compiler/pavexc/src/compiler/analyses/call_graph/borrow_checker/clone.rs',
     '    if cloning_policy == CloningPolicy::NeverClone {\n        return None;\n    }', '    if cloning_policy == CloningPolicy::NeverClone && output.is_result() {\n        return None;\n    }', 'never-clone types get a clone node unless they are Results'),
    ('C07-path-conflicts-not-gated', 'C07', 'C07.R1', 'compiler/pavexc/src/compiler/analyses/user_components/router.rs', None, None, 'handled below'),
    ('C08-checker-skipped', 'C08', 'C08.R1', 'compiler/pavexc/src/compiler/app.rs',
     '''        cloneables_can_be_cloned(
            &component_db,
            &computation_db,
            &krate_collection,
            &diagnostics,
        );''',
     '''        if !handler_free(&router) {
            cloneables_can_be_cloned(
                &component_db,
                &computation_db,
                &krate_collection,
                &diagnostics,
            );
        }''', 'the clone-if-necessary check is skipped for some blueprints'),
    ('C08-gate-dropped', 'C08', 'C08.R3', 'compiler/pavexc/src/compiler/app.rs',
     '''            &component_db,
            &computation_db,
            &diagnostics,
        );
        exit_on_errors!(diagnostics);
        Ok((''',
     '''            &component_db,
            &computation_db,
            &diagnostics,
        );
        Ok((''', 'the last error gate before Ok is removed'),
    ('C10-direct-write', 'C10', 'C10.R2', 'compiler/pavexc/src/compiler/generated_app.rs',
     '        fs_err::create_dir_all(&source_directory)?;', '        fs_err::create_dir_all(&source_directory)?;\n        fs_err::write(source_directory.join(".pavex"), b"generated")?;', 'a marker file is written unconditionally (mtime changes on every run, also in --check)'),
    ('C11-removal-cookie-only-for-new-sessions', 'C11', 'C11.R5', 'runtime/sessions/pavex_session/src/session_.rs',
     '''            if self.id.old_id().is_none() {
                // This is a new session, so there's nothing on the client-side
                // to be removed.
                return Ok(None);''',
     '''            if self.id.old_id().is_some() {
                // This is a new session, so there's nothing on the client-side
                // to be removed.
                return Ok(None);''', 'the removal cookie is skipped exactly when the client has a cookie'),
    ('C11-id-not-advanced-after-rename', 'C11', 'C11.R5', 'runtime/sessions/pavex_session/src/session_.rs',
     '''        if matches!(self.server_state.get(), None | Some(Unchanged { .. })) {''',
     '''        if matches!(self.server_state.get(), Some(Unchanged { .. })) {''', 'a rename of a never-loaded session is repeated by the next sync'),
    ('C09-silent-error', 'C09', 'C09.R1', 'compiler/pavexc/src/compiler/analyses/user_components/router.rs',
     '        if has_errored { Err(()) } else { Ok(()) }', '        if has_errored || router.at("/").is_ok() { Err(()) } else { Ok(()) }', 'detect_domain_conflicts can fail without pushing a diagnostic'),
]


def sh(cmd, cwd='/repo'):
    return subprocess.run(cmd, shell=True, cwd=cwd, stdout=subprocess.PIPE, stderr=subprocess.STDOUT, text=True)


def special(name):
    """mutants that need more than one replacement"""
    if name == 'C06-transformers-before-matchers':
        p = R + 'compiler/pavexc/src/compiler/analyses/components/db/mod.rs'
        s = open(p).read()
        m = re.search(r'\n( *)self_\.add_into_response_transformers\(([^;]*?)\);\n', s, re.S)
        m2 = re.search(r'\n( *)self_\.register_all_matchers\(([^;]*?)\);\n', s, re.S)
        if not (m and m2):
            return False
        a, b_ = m.group(0), m2.group(0)
        s = s.replace(a, '\n@@A@@\n').replace(b_, '\n@@B@@\n')
        s = s.replace('@@A@@', b_.strip('\n')).replace('@@B@@', a.strip('\n'))
        open(p, 'w').write(s)
        return True
    if name == 'C14-raw-body-collected-elsewhere':
        p = R + 'runtime/pavex/src/request/body/raw_body.rs'
        s = open(p).read()
        s += '''
impl RawIncomingBody {
    /// Buffer the whole body in memory.
    pub async fn into_bytes(self) -> Result<bytes::Bytes, hyper::Error> {
        use http_body_util::BodyExt;
        Ok(self.collect().await?.to_bytes())
    }
}
'''
        open(p, 'w').write(s)
        return True
    if name == 'C07-path-conflicts-not-gated':
        p = R + 'compiler/pavexc/src/compiler/analyses/user_components/router.rs'
        s = open(p).read()
        m = re.search(r'Self::detect_path_conflicts\(([^;]*?)\)\?;', s, re.S)
        if not m:
            return False
        s = s.replace(m.group(0), 'Self::detect_path_conflicts(%s).unwrap_or_default();' % m.group(1))
        open(p, 'w').write(s)
        return True
    return False


def main():
    only = set(sys.argv[1:])
    if sh('git status --porcelain --untracked-files=no').stdout.strip():
        print('refusing: /repo is dirty')
        sys.exit(2)
    for name, prop, rule, file, old, new, what in M:
        if only and name not in only:
            continue
        try:
            if old is None:
                ok = special(name)
            else:
                s = open(R + file).read()
                ok = s.count(old) == 1
                if ok:
                    open(R + file, 'w').write(s.replace(old, new))
            if not ok:
                print('%-36s could not be applied (anchor text not found)' % name)
                continue
            if name == 'C08-checker-skipped':
                # helper used by the mutant
                p = R + 'compiler/pavexc/src/compiler/app.rs'
                s = open(p).read()
                s += '\nfn handler_free(router: &Router) -> bool {\n    router.handler_ids().len() <= 1\n}\n'
                open(p, 'w').write(s)
            d = os.path.join(VERIF, 'seeded', 'mut-' + name)
            os.makedirs(d, exist_ok=True)
            open(os.path.join(d, 'patch.diff'), 'w').write(sh('git diff').stdout)
            r = sh('./check %s --tier quick' % prop, cwd=VERIF)
            out = r.stdout
            compiled = 'extraction failed' not in out and 'EXTRACTION FAILED' not in out
            fired = sorted(set(re.findall(r'^\s+(C\d+\.R\w+) (\S+)', out, re.M)))
            hit = [f for f in fired if f[0].startswith(rule)]
            status = 'caught' if hit else ('DOES-NOT-COMPILE' if not compiled else ('caught-by-other-rule' if fired else 'MISSED'))
            print('%-36s %-22s %s' % (name, status, ['%s %s' % f for f in fired][:3]))
            json.dump({'property': prop, 'origin': 'hand-written one-instance mutant (bin/make_mutants.py); type-checks under cargo +nightly check; no runtime demonstration',
                       'summary': what, 'expected_rule': rule, 'check_result': {'caught': bool(fired) and compiled, 'rules_fired': ['%s %s' % f for f in fired], 'compiled': compiled}},
                      open(os.path.join(d, 'meta.json'), 'w'), indent=1)
        finally:
            sh('git reset -q; git checkout -q -- .')
    print('repo status after:', sh('git status --porcelain --untracked-files=no').stdout.strip() or 'clean')


main()
