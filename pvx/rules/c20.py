"""C20 — Domain guards accept exactly the hosts the documentation says.

Decided clauses: a DomainGuard exists only after validation; the validator splits the unmodified input; the compile-time
conflict check and the generated router are fed by the same pattern function over all registered guards and any insert
error is reported; guard-side and host-side normalisation use the same string transformations.
Language equivalence of the validator / matching semantics is not decided.
"""
from ..facts import callee, op_place, strip_generics
from ..flow import Defs, backward_slice, slice_calls, forward_derived
from ..govern import field_reads_of_slice, field_reads_of_place
from ..quote import chains

LEVEL = 'other'
CLAUSE = ('DomainGuard values are built only by DomainGuard::new after validate()? succeeded; validate() splits the input it was given, '
          'unmodified, into labels; detect_domain_conflicts inserts matchit_pattern() of every registered guard, with no filter, and any '
          'insert error yields Err; the generated router is initialised from the same matchit_pattern(); the normalising string '
          'operations applied to a guard equal those the generated code applies to the Host header.')
TRUSTED = ['matchit reports every pair of patterns that can match the same path as a Conflict', 'str::split / trim_end_matches semantics']

CR = 'pavexc'
DG = 'pavexc::compiler::analyses::domain::DomainGuard'
VALIDATE = 'pavexc::compiler::analyses::domain::validate'
PATTERN = DG + '::matchit_pattern'
NORMALISERS = {'trim_end_matches', 'trim_start_matches', 'trim_matches', 'trim', 'trim_end', 'trim_start', 'to_lowercase', 'to_ascii_lowercase',
               'to_uppercase', 'to_ascii_uppercase', 'strip_suffix', 'strip_prefix', 'make_ascii_lowercase', 'make_ascii_uppercase'}


def r1_validated_constructor(ctx):
    ctx.rule('C20.R1', 'P3/P1: DomainGuard{..} is constructed only in DomainGuard::new (and derived impls), in a block dominated by `validate(..)?`; '
             'P7: validate() applies str::split to its input parameter itself (no trimming / rewriting call in between), and drops at most one '
             'trailing label.')
    n = 0
    for b in ctx.fb.bodies(CR):
        if b.is_promoted:
            continue
        for bb, j, st in b.all_assigns():
            rv = st['rv']
            if rv['k'] == 'agg' and rv.get('ak') == 'adt' and strip_generics(rv['adt']) == DG:
                n += 1
                derived = b.raw.get('impl_trait') in ('core::clone::Clone',)
                ok = derived
                if b.nroot == DG + '::new':
                    v = [vb for vb, t in b.calls() if callee(t) == VALIDATE]
                    tr = [tb for tb, t in b.calls() if callee(t) == 'core::ops::try_trait::Try::branch']
                    ok = bool(v) and b.dominates(v[0], bb) and any(b.dominates(v[0], x) and b.dominates(x, bb) for x in tr)
                ctx.ob('C20.R1', 'constructor|%s' % b.nroot.replace('pavexc::compiler::analyses::', ''), ok, b.loc(bb, st),
                       'DomainGuard constructed in %s%s' % (b.nroot, ' after validate()?' if ok and not derived else ''))
    ctx.floor('C20.R1', 'DomainGuard construction sites', n, 1)
    v = ctx.need('C20.R1', 'validate', ctx.fb.body(CR, VALIDATE))
    if v is not None:
        defs = Defs(v)
        sp = [(bb, t) for bb, t in v.calls() if callee(t) == 'core::str::{impl str}::split']
        if ctx.need('C20.R1', 'str::split in validate', sp):
            bb, t = sp[0]
            pl = op_place(t['args'][0])
            sl, locs = backward_slice(v, pl['l'], defs)
            calls = [c for c, _, _ in slice_calls(sl)]
            ok = 1 in locs and not calls
            ctx.ob('C20.R1', 'labels-of-unmodified-input', ok, v.loc(bb, t),
                   'validate() splits its own parameter (derives from _1: %s) with no call in between: %s' % (1 in locs, calls or 'none'))
        nb = [bb for bb, t in v.calls() if callee(t) == 'core::iter::traits::double_ended::DoubleEndedIterator::next_back']
        in_loop = [x for x in nb if x in v.reachable(v.succ(x))]
        ctx.ob('C20.R1', 'at-most-one-trailing-label-dropped', len(nb) <= 1 and not in_loop, v.loc(nb[0]) if nb else v.loc(),
               'next_back() (dropping the empty label after one trailing dot) is called at most once, outside any loop: %d call(s)' % len(nb))


def r2_one_pattern_source(ctx):
    ctx.rule('C20.R2', 'P3/P1: matchit_pattern() is consumed by detect_domain_conflicts and by the router code generator (and nobody else); '
             'detect_domain_conflicts iterates the full registry (AuxiliaryData.domain_guard2locations), every iteration reaches Router::insert '
             '(no filter), the Err arm of insert sets the error flag and Ok(()) is returned only when the flag is clear.')
    users = {}
    for b in ctx.fb.bodies(CR):
        if b.is_promoted:
            continue
        for bb, t in b.calls():
            if callee(t) == PATTERN:
                users.setdefault(b.nroot, []).append((b, bb))
    want = {'pavexc::compiler::analyses::user_components::router::DomainRouter::detect_domain_conflicts',
            'pavexc::compiler::codegen::router::domain_router_init'}
    for u in sorted(set(users) | want):
        ctx.ob('C20.R2', 'pattern-consumer|%s' % u.split('::')[-1], u in users and u in want, users[u][0][0].loc(users[u][0][1]) if u in users else '',
               'matchit_pattern() %s' % ('consumed by ' + u if u in users else 'NOT consumed by ' + u))
    det = ctx.need('C20.R2', 'detect_domain_conflicts', ctx.fb.body(CR, 'pavexc::compiler::analyses::user_components::router::DomainRouter::detect_domain_conflicts'))
    if det is None:
        return
    defs = Defs(det)
    heads = [(bb, t) for bb, t in det.calls() if callee(t) == 'core::iter::traits::iterator::Iterator::next']
    ins = [(bb, t) for bb, t in det.calls() if callee(t) == 'matchit::router::Router::insert']
    if not (ctx.need('C20.R2', 'loop in detect_domain_conflicts', heads) and ctx.need('C20.R2', 'Router::insert in detect_domain_conflicts', ins)):
        return
    hb, ht = heads[0]
    pl = op_place(ht['args'][0])
    sl, _ = backward_slice(det, pl['l'], defs)
    reads = field_reads_of_slice(sl)
    filt = sorted(c for c, _, _ in slice_calls(sl) if c and any(x in c for x in ('::filter', '::skip', '::take', '::step_by')))
    ctx.ob('C20.R2', 'iterates-whole-registry', 'domain_guard2locations' in reads and not filt, det.loc(hb, ht),
           'the loop iterates %s; iterator adaptors that drop items: %s' % (sorted(reads), filt or 'none'))
    ib = ins[0][0]
    # from the Some edge of next(), every path back to the loop head passes through insert
    some_t = []
    der = forward_derived(det, {ht['dest']['l']})
    for sb in det.live_blocks():
        w = det.term(sb)
        if w and w['k'] == 'switch' and strip_generics(w.get('enum', '')) == 'core::option::Option' and w['src']['l'] in der:
            some_t += [tg for n_, tg in w['ts'] if n_ == 'Some']
    bad = [s for s in some_t if hb in det.reachable(s, avoid=[ib]) and s != ib]
    ctx.ob('C20.R2', 'no-filter-before-insert', bool(some_t) and not bad, det.loc(ib),
           'every iteration inserts the guard\'s pattern into the trial router before going on')
    # inserted value derives from matchit_pattern
    ipl = op_place(ins[0][1]['args'][1])
    isl, _ = backward_slice(det, ipl['l'], defs)
    ctx.ob('C20.R2', 'inserts-the-pattern', PATTERN in {c for c, _, _ in slice_calls(isl)}, det.loc(ib), 'the inserted route is matchit_pattern() of the guard')
    # error flag
    ider = forward_derived(det, {ins[0][1]['dest']['l']}, through_calls=True)
    err_t = []
    for sb in det.live_blocks():
        w = det.term(sb)
        if w and w['k'] == 'switch' and strip_generics(w.get('enum', '')) == 'core::result::Result' and w['src']['l'] in ider:
            edges = {n_: tg for n_, tg in w['ts']}
            if 'Err' in edges:
                err_t.append(edges['Err'])
            elif 'Ok' in edges:
                err_t.append(w['else'])
    sets = {}
    for bb, j, st in det.all_assigns():
        if st['rv']['k'] == 'use' and st['rv']['op'].get('int') == '1' and det.locals[st['lhs']['l']] == 'bool' and not st['lhs'].get('p'):
            sets.setdefault(st['lhs']['l'], []).append(bb)
    oks = [bb for bb, j, st in det.all_assigns() if st['lhs'] == {'l': 0} and st['rv']['k'] == 'agg' and st['rv'].get('var') == 'Ok']
    good = False
    for flag, blocks in sets.items():
        always = all(not (det.reachable(e, avoid=blocks) & ({hb} | set(det.return_blocks()))) or e in blocks for e in err_t)
        fl = forward_derived(det, {flag})
        guarded = False
        for sb in det.live_blocks():
            w = det.term(sb)
            if w and w['k'] == 'switch' and 'enum' not in w and op_place(w['d']) and op_place(w['d'])['l'] in fl:
                zero = [tg for v_, tg in w['ts'] if v_ == '0']
                guarded = bool(oks) and all(any(o in det.reachable(z, avoid=[w['else']]) for z in zero) and o not in det.reachable(w['else'], avoid=zero) for o in oks)
        if always and guarded:
            good = True
    ctx.ob('C20.R2', 'conflict-yields-error', bool(err_t) and good, det.loc(ib),
           'the Err arm of insert always sets an error flag and Ok(()) is returned only when that flag is clear: %s' % good)


def r3_normalisation_agreement(ctx):
    ctx.rule('C20.R3', 'P9 (tier B, template rule over keywords only): the set of normalising str methods (trim*/strip*/case folding) applied to the '
             'guard in DomainGuard::new and DomainGuard::matchit_pattern equals the set the generated router applies to the Host header (quote! template read from MIR); both '
             'sides replace "." by "/" and reverse.')
    new = ctx.need('C20.R3', 'DomainGuard::new', ctx.fb.body(CR, DG + '::new'))
    guard_side = set()
    # everything between the user's string and the pattern handed to matchit: the constructor and matchit_pattern (with closures)
    guard_bodies = ctx.fb.bodies_of_item(CR, DG + '::new') + ctx.fb.bodies_of_item(CR, PATTERN)
    for gb in guard_bodies:
        for bb, t in gb.calls():
            m = (callee(t) or '').split('::')[-1]
            if m in NORMALISERS:
                guard_side.add(m)
    host_side = set()
    found = False
    by_item = {}
    for b in ctx.fb.bodies(CR):
        if b.is_promoted or not b.nid.startswith('pavexc::compiler::codegen::router'):
            continue
        for ch in chains(b):
            by_item.setdefault(b.nroot, []).extend(t[1] for _, t in ch if t[0] == 'ident')
    for item, idents in by_item.items():
        if 'host' in idents and 'rev' in idents and 'Authority' in idents:
            found = True
            host_side |= {i for i in idents if i in NORMALISERS}
            ctx.ob('C20.R3', 'host-reversed', 'rev' in idents and 'replace' in idents, '',
                   'the generated Host normalisation (%s) replaces separators and reverses: %s' % (item.split('::')[-1], [i for i in idents if i in ('replace', 'chars', 'rev', 'collect')]))
    ctx.need('C20.R3', 'Host normalisation template in codegen::router', found)
    ctx.ob('C20.R3', 'same-normalisers', guard_side == host_side, new.loc() if new is not None else '',
           'guard side applies %s; generated host side applies %s' % (sorted(guard_side), sorted(host_side)))
    pat = ctx.fb.body(CR, PATTERN)
    if ctx.need('C20.R3', 'matchit_pattern', pat) is not None:
        rev = [1 for bb, t in pat.calls() if callee(t) in ('core::iter::traits::iterator::Iterator::rev',)]
        ctx.ob('C20.R3', 'guard-reversed', bool(rev), pat.loc(), 'matchit_pattern() walks the guard in reverse: %s' % bool(rev), nontrivial=False)


def check(ctx):
    r1_validated_constructor(ctx)
    r2_one_pattern_source(ctx)
    r3_normalisation_agreement(ctx)
