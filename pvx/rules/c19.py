"""C19 — What you register is what the compiler sees.

Decided clauses: the blueprint schema is written and read symmetrically (same type, same keys on every path); the
runtime -> schema conversions are name/field preserving; registrations are append-only and the routing modifiers keep all
their fields; the compiler reads every component kind; the keys the attribute macros write are keys the attribute parser
knows, each governed only by its own input. The round-trip over all call sequences is not decided.
"""
import re

from ..facts import callee, op_place, strip_generics
from ..flow import Defs, backward_slice, slice_calls, slice_strs, rv_operands, promoted_strs
from ..govern import governing_fields, field_reads_of_slice, field_reads_of_place
from ..quote import chains, keys_in_chain
from ..tables import enum_switches, switch_arms, switch_edges, variant_table

LEVEL = 'other'
TECHNIQUE = 'static analysis: serde/ron schema symmetry tables, conversion-table extraction, append-only and field-preservation audits, exhaustive reader, macro key tables vs parser fields, #[track_caller] closure, case evaluation of prefix/domain inheritance, value-independent emission of attribute properties, hashing covers what was read'
CLAUSE = ('every pavex_bp_schema type serialises each declared field/variant unconditionally under the name its deserialiser expects; '
          'Blueprint::persist and the compiler use the same schema type with ron; the runtime->schema conversion tables preserve variant '
          'names and fields; components are only appended; RoutingModifiers builders keep every field and nest() moves prefix and domain '
          'into the nested entry; the compiler matches Component exhaustively; every key an attribute macro emits is a field of the '
          'matching parser struct, is governed only by its like-named input, and kind names agree between writer and reader. Strings reach schema values through identity conversions only; nothing between an item\'s attribute list and pavexc_attr_parser::parse truncates or picks by position.')
TRUSTED = ['serde derive + ron round-trip a value whose Serialize and Deserialize impls agree on names', 'darling::FromMeta maps keys to like-named fields']

SC = 'pavex_bp_schema'


def user_adts(ctx, crate):
    return [a for a in ctx.fb.adts(crate) if '::_::' not in a['id'] and '__' not in a['id'].split('::')[-1] and '{impl' not in strip_generics(a['id'])]


def r1_schema_symmetry(ctx):
    ctx.rule('C19.R1', 'P9: for every struct/enum of pavex_bp_schema: the derived Serialize writes each declared field (serialize_field) / '
             'variant (serialize_*_variant) under a name, unconditionally (the call dominates SerializeStruct::end) — no skipped or '
             'conditionally skipped field; the derived Deserialize knows exactly the same names (FIELDS / VARIANTS); names equal the '
             'declared ones; Blueprint::persist serialises pavex_bp_schema::Blueprint with ron and pavexc_cli deserialises the same type with ron.')
    fb = ctx.fb
    bodies = fb.bodies(SC)
    by_nid = {}
    for b in bodies:
        by_nid.setdefault(b.nid, []).append(b)
    n_struct = n_enum = 0
    for a in user_adts(ctx, SC):
        path = strip_generics(a['id'])
        short = path.split('::')[-1]
        ser = [b for b in bodies if not b.is_promoted and b.nid == '%s::_::{impl serde_core::ser::Serialize for %s}::serialize' % (SC, path)]
        if not ser:
            continue  # not a serialised type
        ser = ser[0]
        de_prefix = '%s::_::{impl serde_core::de::Deserialize for %s}::deserialize::' % (SC, path)
        if a['kind'] == 'struct' and a['variants'] and all(not f['n'].isdigit() for f in a['variants'][0]['fields']) and a['variants'][0]['fields']:
            n_struct += 1
            declared = [f['n'] for f in a['variants'][0]['fields']]
            end = [bb for bb, t in ser.calls() if callee(t) == 'serde_core::ser::SerializeStruct::end']
            written, conditional = [], []
            for bb, t in ser.calls():
                if callee(t) == 'serde_core::ser::SerializeStruct::serialize_field':
                    name = next((x['str'] for x in t['args'] if 'str' in x), None)
                    written.append(name)
                    if not end or not all(ser.dominates(bb, e) for e in end):
                        conditional.append(name)
                if callee(t) == 'serde_core::ser::SerializeStruct::skip_field':
                    conditional.append(next((x['str'] for x in t['args'] if 'str' in x), '?'))
            known = []
            for b in bodies:
                if b.id.startswith(a['id'].replace(path, path)) or True:
                    pass
            for b in bodies:
                if strip_generics(b.id).startswith(de_prefix + 'FIELDS'):
                    for bb, j, st in b.all_assigns():
                        for o in rv_operands(st['rv'])[0]:
                            if 'str' in o:
                                known.append(o['str'])
            ok = written == declared and not conditional and sorted(known) == sorted(declared)
            ctx.ob('C19.R1', 'struct|%s' % short, ok, '%s:%s' % (a['file'], a['ln']),
                   'declared %s; written unconditionally %s%s; known to the reader %s' % (declared, written, (' CONDITIONAL/SKIPPED: %s' % conditional) if conditional else '', sorted(known)))
        elif a['kind'] == 'enum':
            n_enum += 1
            declared = [v['n'] for v in a['variants']]
            written = []
            for bb, t in ser.calls():
                c = callee(t) or ''
                if re.match(r'serde_core::ser::Serializer::serialize_(unit|newtype|tuple|struct)_variant$', c):
                    ss = [x['str'] for x in t['args'] if 'str' in x]
                    written.append(ss[-1] if ss else None)
            known = []
            for b in bodies:
                if strip_generics(b.id).startswith(de_prefix + 'VARIANTS'):
                    for bb, j, st in b.all_assigns():
                        for o in rv_operands(st['rv'])[0]:
                            if 'str' in o:
                                known.append(o['str'])
            def snake(s):
                return re.sub(r'(?<!^)(?=[A-Z])', '_', s).lower()
            names_ok = sorted(written) == sorted(known) and len(written) == len(declared) and \
                sorted(written) in (sorted(declared), sorted(snake(d) for d in declared))
            ctx.ob('C19.R1', 'enum|%s' % short, names_ok, '%s:%s' % (a['file'], a['ln']),
                   'declared %s; written as %s; known to the reader %s' % (declared, written, sorted(known)))
    ctx.floor('C19.R1', 'schema structs checked', n_struct, 15)
    ctx.floor('C19.R1', 'schema enums checked', n_enum, 6)
    # same type both ends
    per = [(b, bb, t) for b in fb.bodies_of_item('pavex', 'pavex::blueprint::blueprint::Blueprint::persist') for bb, t in b.calls()
           if (callee(t) or '').startswith('ron::ser::')]
    ok = any('pavex_bp_schema::Blueprint' in ' '.join(t.get('ga', [])) for _, _, t in per)
    ctx.ob('C19.R1', 'writer-type', ok, per[0][0].loc(per[0][1]) if per else '', 'Blueprint::persist serialises %s with ron' % ([t.get('ga') for _, _, t in per][:1]))
    rd = []
    for b in fb.bodies('pavexc', 'Executable'):
        if b.is_promoted:
            continue
        for bb, t in b.calls():
            if (callee(t) or '').startswith('ron::de::') or (callee(t) or '').startswith('ron::options::Options::from_'):
                rd.append((b, bb, t))
    ok = any('pavex_bp_schema::Blueprint' in ' '.join(t.get('ga', [])) for _, _, t in rd)
    ctx.ob('C19.R1', 'reader-type', ok, rd[0][0].loc(rd[0][1]) if rd else '', 'pavexc_cli deserialises %s with ron' % ([t.get('ga') for _, _, t in rd][:1]))


CONV = 'pavex::blueprint::conversions::'


def r2_conversions(ctx):
    ctx.rule('C19.R2', 'P5: the runtime->schema conversion functions map every variant to the like-named schema variant and every field to the '
             'like-named field; AnnotationKind::parse and Display are inverse of each other.')
    def conversion(fn, schema_ty):
        """the runtime -> schema conversion: the function of that name, or (if the conversions were reorganised, e.g. into a trait) the one
        function of pavex::blueprint that returns the schema type `schema_ty` from one argument of the like-named runtime type"""
        b_ = ctx.fb.body('pavex', CONV + fn)
        if b_ is not None:
            return b_
        want = 'pavex_bp_schema::' + schema_ty
        cands = [x for x in ctx.fb.bodies('pavex') if not x.is_promoted and x.nid == x.nroot and x.nid.replace('<', '').startswith('pavex::blueprint::')
                 and x.raw['argc'] == 1 and strip_generics(x.locals[0]) == want and x.locals[1].split('::')[-1].split('<')[0] == schema_ty]
        return cands[0] if len(cands) == 1 else None

    for fn, sty in (('lifecycle2lifecycle', 'Lifecycle'), ('cloning2cloning', 'CloningPolicy'), ('lint2lint', 'Lint'), ('sources2sources', 'Sources')):
        b = ctx.need('C19.R2', CONV + fn, conversion(fn, sty))
        if b is None:
            continue
        sws = list(enum_switches(b))
        if not ctx.need('C19.R2', 'match in ' + fn, sws):
            continue
        vt = variant_table(b, sws[0][0])
        for var, f in vt.items():
            outs = {v for adt, v, _, _ in f['aggs'] if adt.startswith('pavex_bp_schema::')}
            if f['unreachable'] and not outs:
                continue
            ctx.ob('C19.R2', 'table|%s|%s' % (fn, var), outs == {var}, b.loc(sws[0][0]), '%s(%s) builds schema variant(s) %s' % (fn, var, sorted(outs)))
    for fn, sty in (('coordinates2coordinates', 'AnnotationCoordinates'), ('created_at2created_at', 'CreatedAt')):
        b = ctx.need('C19.R2', CONV + fn, conversion(fn, sty))
        if b is None:
            continue
        defs = Defs(b)
        for bb, j, st in b.all_assigns():
            rv = st['rv']
            if rv['k'] == 'agg' and rv.get('ak') == 'adt' and rv['adt'].startswith('pavex_bp_schema::'):
                for fname, o in zip(rv['fields'], rv['ops']):
                    pl = op_place(o)
                    src = set()
                    if pl is not None:
                        sl, _ = backward_slice(b, pl['l'], defs)
                        src = field_reads_of_slice(sl) | field_reads_of_place(pl)
                    ctx.ob('C19.R2', 'field|%s|%s' % (fn, fname), fname in src, b.loc(bb, st), 'schema field %s is filled from input field(s) %s' % (fname, sorted(src)))
    # AnnotationKind parse / Display
    AP = 'pavexc_attr_parser'
    parse = ctx.fb.body(AP, 'pavexc_attr_parser::AnnotationKind::parse')
    if parse is None:
        # whatever it is called and whatever it returns (`Result<Self, ()>`, `Option<Self>`): the function of the crate, outside Display, that
        # builds the most AnnotationKind variants from string comparisons
        best = (0, None)
        for x in ctx.fb.bodies(AP):
            if x.is_promoted or x.nid != x.nroot or x.nid.endswith('::fmt'):
                continue
            vs = {st['rv']['var'] for _, _, st in x.all_assigns() if st['rv']['k'] == 'agg' and st['rv'].get('ak') == 'adt'
                  and strip_generics(st['rv'].get('adt', '')) == 'pavexc_attr_parser::AnnotationKind'}
            has_eq = any((callee(t) or '').endswith('::eq') for _, t in x.calls())
            if has_eq and len(vs) > best[0]:
                best = (len(vs), x)
        parse = best[1] if best[0] >= 5 else None
    parse = ctx.need('C19.R2', 'AnnotationKind::parse', parse)
    disp = [b for b in ctx.fb.bodies(AP) if not b.is_promoted and b.nid == '<pavexc_attr_parser::AnnotationKind as core::fmt::Display>::fmt']
    s2v, v2s = {}, {}
    if parse is not None:
        defs = Defs(parse)
        for bb, t in parse.calls():
            c = callee(t) or ''
            if c.startswith('core::cmp::PartialEq::eq') or c.endswith('::eq'):
                strs = []
                for a in t['args']:
                    pl = op_place(a)
                    if pl:
                        sl, _ = backward_slice(parse, pl['l'], defs, through_calls=False)
                        strs += slice_strs(ctx.fb, parse, sl)
                    if 'str' in a:
                        strs.append(a['str'])
                    if 'tyconst' in a and a['tyconst'].startswith('"'):
                        strs.append(a['tyconst'].strip('"'))
                strs = [s for s in strs if not s.startswith('const:')]
                if len(strs) != 1:
                    continue
                # true edge region
                d = t['dest']['l']
                for sb in parse.live_blocks():
                    w = parse.term(sb)
                    if w and w['k'] == 'switch' and op_place(w['d']) and op_place(w['d'])['l'] == d:
                        zero = [tg for v, tg in w['ts'] if v == '0']
                        reg = parse.reachable(w['else'], avoid=zero)
                        for b2 in sorted(reg):
                            for st in parse.stmts(b2):
                                rv = st.get('rv')
                                if rv and rv['k'] == 'agg' and rv.get('adt', '').endswith('AnnotationKind') and strs[0] not in s2v:
                                    s2v[strs[0]] = rv['var']
    if ctx.need('C19.R2', 'Display for AnnotationKind', disp):
        d = disp[0]
        sws = list(enum_switches(d, 'pavexc_attr_parser::AnnotationKind'))
        if sws:
            arms = switch_arms(d, sws[0][0])
            for var, blocks in arms.items():
                strs = []
                for bb in blocks:
                    t = d.term(bb)
                    if t and t['k'] == 'call':
                        for a in t['args']:
                            if 'str' in a:
                                strs.append(a['str'])
                            pl = op_place(a)
                            if pl:
                                sl, _ = backward_slice(d, pl['l'], through_calls=False)
                                strs += [s for s in slice_strs(ctx.fb, d, sl) if not s.startswith('const:')]
                strs = [s for s in dict.fromkeys(strs) if s]
                if strs:
                    v2s[var] = strs[0]
    ctx.floor('C19.R2', 'kind names recognised by AnnotationKind::parse', len(s2v), 11)
    for s, v in sorted(s2v.items()):
        ctx.ob('C19.R2', 'kind-name|%s' % s, v2s.get(v) == s, parse.loc() if parse else '', 'parse("%s") = %s; Display(%s) = "%s"' % (s, v, v, v2s.get(v)))
    return s2v


def component_list_only_pushed(ctx, rid):
    """one registration call = one component pushed: the component list of the runtime blueprint is only pushed to / indexed — never extended with
    the components of another blueprint (a nested blueprint stays ONE NestedBlueprint component, which is what gives it its own scope and
    its own copy of the middleware / observer chains), never reordered or truncated"""
    allowed = {'push', 'index', 'index_mut', 'new', 'len', 'iter', 'last_mut', 'last', 'is_empty', 'with_capacity', 'deref', 'deref_mut', 'as_slice', 'as_mut_slice'}
    n = 0
    for b in ctx.fb.bodies('pavex'):
        if b.is_promoted or not b.nid.startswith(('pavex::blueprint', '<pavex::blueprint')):
            continue
        for bb, t in b.calls():
            if t['aty'] and 'alloc::vec::Vec<pavex_bp_schema::Component>' in t['aty'][0]:
                n += 1
                m = (callee(t) or '?').split('::')[-1]
                if m not in allowed:
                    ctx.ob(rid, 'components-mutation|%s|%s' % (b.nroot.split('::')[-1], m), False, b.loc(bb, t),
                           'Vec<Component>::%s in %s: registrations must only be appended, one component per call' % (m, b.nroot))
    ctx.floor(rid, 'accesses to the component list in pavex::blueprint', n, 8)
    ctx.ob(rid, 'components-append-only', True, '', '%d accesses, all push/index' % n, nontrivial=False)


def r3_append_only(ctx):
    ctx.rule('C19.R3', 'P3/P8: Vec<pavex_bp_schema::Component> is only pushed to / indexed in the runtime crate; RoutingModifiers::prefix/domain '
             'return a value that keeps every field of self (no field is dropped or reset); RoutingModifiers::nest moves path_prefix and domain '
             '(and the nested schema) into the NestedBlueprint it pushes.')
    component_list_only_pushed(ctx, 'C19.R3')
    RM = 'pavex::blueprint::nesting::RoutingModifiers'
    a = ctx.fb.adt('pavex', RM)
    fields = [f['n'] for f in a['variants'][0]['fields']] if a else []
    ctx.need('C19.R3', 'ADT RoutingModifiers', fields)
    for m in ('prefix', 'domain'):
        b = ctx.need('C19.R3', RM + '::' + m, ctx.fb.body('pavex', RM + '::' + m))
        if b is None:
            continue
        defs = Defs(b)
        sl, locs = backward_slice(b, 0, defs)
        whole = 1 in locs and any('rv' in n_ and n_['rv']['k'] == 'use' and op_place(n_['rv']['op']) == {'l': 1} for _, _, n_ in sl)
        # fields read from `self` (local _1) anywhere in the slice of the return value, and fields the builder assigns itself
        read = set()
        for _, _, node in sl:
            places = []
            if 'rv' in node:
                ops, pls = rv_operands(node['rv'])
                places = pls + [op_place(o) for o in ops if op_place(o) is not None]
            elif node.get('k') == 'call':
                places = [op_place(o) for o in node['args'] if op_place(o) is not None]
            for q in places:
                if q['l'] == 1:
                    read |= field_reads_of_place(q, set(fields))
        assigned = set()
        for bb, j, st in b.all_assigns():
            lhs = st['lhs']
            if lhs.get('p'):
                assigned |= field_reads_of_place(lhs, set(fields), 'RoutingModifiers')
        kept = set(fields) if whole else (read | assigned)
        ctx.ob('C19.R3', 'builder-keeps-fields|%s' % m, kept == set(fields), b.loc(),
               'RoutingModifiers::%s returns %s; fields carried over from self: %s, set by the builder: %s, of %s' % (
                   m, 'self (updated in place)' if whole else 'a rebuilt value', sorted(fields if whole else read), sorted(assigned), fields))
    nb = ctx.need('C19.R3', RM + '::nest', ctx.fb.body('pavex', RM + '::nest'))
    if nb is not None:
        defs = Defs(nb)
        found = False
        for bb, j, st in nb.all_assigns():
            rv = st['rv']
            if rv['k'] == 'agg' and rv.get('ak') == 'adt' and strip_generics(rv['adt']) == 'pavex_bp_schema::NestedBlueprint':
                found = True
                want = {'path_prefix': 'path_prefix', 'domain': 'domain', 'blueprint': 'schema'}
                for fname, o in zip(rv['fields'], rv['ops']):
                    if fname not in want:
                        continue
                    pl = op_place(o)
                    src = set()
                    if pl is not None:
                        sl, _ = backward_slice(nb, pl['l'], defs)
                        src = field_reads_of_slice(sl) | field_reads_of_place(pl)
                    ctx.ob('C19.R3', 'nest|%s' % fname, want[fname] in src, nb.loc(bb, st), 'NestedBlueprint.%s <- %s' % (fname, sorted(src)))
        ctx.need('C19.R3', 'NestedBlueprint construction in nest()', found)


def r4_exhaustive_reader(ctx):
    ctx.rule('C19.R4', 'P5: the compiler\'s match over pavex_bp_schema::Component (blueprint processing) lists every variant: no wildcard arm that '
             'silently ignores a component kind.')
    comp = ctx.fb.adt(SC, 'pavex_bp_schema::Component')
    variants = [v['n'] for v in comp['variants']] if comp else []
    ctx.need('C19.R4', 'ADT Component', variants)
    n = 0
    for b in ctx.fb.bodies('pavexc'):
        if b.is_promoted or 'user_components::blueprint' not in b.nid:
            continue
        sws = list(enum_switches(b, 'pavex_bp_schema::Component'))
        def is_wild(st):
            rest = st.get('rest', [])
            else_t = b.term(st['else'])
            return bool(rest) and not (else_t and else_t['k'] == 'unreachable')
        exhaustive = [sb for sb, st in sws if not is_wild(st) and set(switch_edges(st)) >= set(variants)]
        for sb, st in sws:
            n += 1
            wildcard = is_wild(st)
            nested = any(e != sb and b.dominates(e, sb) for e in exhaustive)
            ctx.ob('C19.R4', 'exhaustive|%s|%s' % (b.nroot.split('::')[-1], 'nested' if nested else 'top'), (not wildcard) or nested, b.loc(sb),
                   'match on Component lists %d variant(s) explicitly; catch-all for %s%s' % (
                       len(st['ts']), st.get('rest', []) if wildcard else '[]', ' (inside an arm of an exhaustive match: a refinement, not a reader)' if nested else ''))
    ctx.floor('C19.R4', 'matches on Component in blueprint processing', n, 1)


def governing_fields_reaching(b, bb, defs, must_reach):
    """fields read by the conditions of switches that control `bb` AND whose other branch still goes on to emit the attribute
    (early error exits are not inputs to the emitted properties)"""
    from ..govern import controlling_switches
    gov = set()
    for sb, st in controlling_switches(b, bb):
        others = [x for x in b.succ(sb) if bb not in b.reachable(x, avoid=[sb])]
        if not any(b.reachable(x) & must_reach for x in others):
            continue
        pl = op_place(st['d'])
        if pl is not None:
            sl, _ = backward_slice(b, pl['l'], defs)
            gov |= field_reads_of_slice(sl)
        if 'src' in st:
            sl, _ = backward_slice(b, st['src']['l'], defs)
            gov |= field_reads_of_slice(sl) | field_reads_of_place(st['src'])
    return gov


def r5_attribute_keys(ctx, s2v):
    ctx.rule('C19.R5', 'P9/P7 writer/reader agreement: for every `#[diagnostic::pavex::<kind>(..)]` template of pavex_macros (read from the quote! '
             'expansion in MIR): <kind> is a name AnnotationKind::parse accepts; every emitted key is a field of the parser struct that '
             'from_meta uses for that kind; every conditionally emitted key is governed only by the like-named macro input.')
    AP = 'pavexc_attr_parser'
    MC = ('pavex_macros', 'ProcMacro')
    if MC not in ctx.fb.available():
        ctx.need('C19.R5', 'fact file of pavex_macros', None)
        return
    # kind -> parser struct fields, from AnnotationProperties::from_meta
    fm = [b for b in ctx.fb.bodies(AP) if not b.is_promoted and b.nid == 'pavexc_attr_parser::AnnotationProperties::from_meta']
    kind2fields = {}
    if ctx.need('C19.R5', 'AnnotationProperties::from_meta', fm):
        b = fm[0]
        sws = list(enum_switches(b, 'pavexc_attr_parser::AnnotationKind'))
        if ctx.need('C19.R5', 'match on AnnotationKind in from_meta', sws):
            vt = variant_table(b, sws[0][0])
            for var, f in vt.items():
                for c, bb, t in f['calls']:
                    if c == 'darling_core::from_meta::FromMeta::from_meta':
                        ty = strip_generics(t.get('ga', ['?'])[0])
                        a = ctx.fb.adt(AP, ty)
                        if a:
                            kind2fields[var] = (ty, [x['n'] for x in a['variants'][0]['fields']])
    v2s = {v: s for s, v in s2v.items()}
    name2fields = {v2s[k]: val for k, val in kind2fields.items() if k in v2s}
    ctx.floor('C19.R5', 'annotation kinds with a parser struct', len(name2fields), 10)
    n_templates = 0
    for b in ctx.fb.bodies('pavex_macros', 'ProcMacro'):
        if b.is_promoted:
            continue
        chs = chains(b)
        kind = None
        for ch in chs:
            toks = [t for _, t in ch]
            for i in range(len(toks) - 4):
                if toks[i] == ('ident', 'diagnostic') and toks[i + 2] == ('ident', 'pavex'):
                    kind = toks[i + 4]
        if kind is None:
            continue
        n_templates += 1
        fn = b.nid.replace('pavex_macros::', '')
        if kind[0] == 'ident':
            kinds = [kind[1]]
            ctx.ob('C19.R5', 'kind-known|%s' % fn, kind[1] in s2v, b.loc(), 'template emits #[diagnostic::pavex::%s(..)]; the reader accepts: %s' % (kind[1], kind[1] in s2v))
        else:
            kinds = ['wrap', 'pre_process', 'post_process']   # the middleware macros interpolate the kind
        defs = Defs(b)
        template_blocks = set()
        for ch in chs:
            toks = [t for _, t in ch]
            if ('ident', 'diagnostic') in toks and ('ident', 'pavex') in toks:
                template_blocks |= {bb_ for bb_, _ in ch}
        # the macro's own input struct: fields named like the keys
        for ch in chs:
            toks = [t for _, t in ch]
            # property-list chains only: (ident = X ,)+
            if not toks or len(toks) % 4 != 0 or any(toks[i][0] != 'ident' or toks[i + 1] != ('punct', '=') or toks[i + 3] != ('punct', ',') for i in range(0, len(toks), 4)):
                continue
            for bb, key in keys_in_chain(ch):
                for k in kinds:
                    if k not in name2fields:
                        continue
                    ty, fields = name2fields[k]
                    ctx.ob('C19.R5', 'key-known|%s|%s|%s' % (fn, k, key), key in fields, b.loc(bb),
                           'key `%s` written into #[diagnostic::pavex::%s(..)] by %s; reader struct %s has fields %s' % (key, k, fn, ty.split('::')[-1], fields))
                gov = governing_fields_reaching(b, bb, defs, template_blocks)
                # only inputs that are themselves keys matter
                allk = {kk for c2 in chs for _, kk in keys_in_chain(c2)}
                gov = {g for g in gov if g in allk}
                ctx.ob('C19.R5', 'key-governed|%s|%s' % (fn, key), gov <= {key}, b.loc(bb),
                       'emission of `%s` depends on macro input(s) %s' % (key, sorted(gov) or '(unconditional)'))
    ctx.floor('C19.R5', 'diagnostic attribute templates in pavex_macros', n_templates, 9)


def r6_caller_locations(ctx):
    ctx.rule('C19.R6', 'P3 who-may-call + attribute closure: `core::panic::Location::caller()` reports the call site of the outermost '
             '#[track_caller] frame. In the runtime crate every function that calls Location::caller(), or calls a #[track_caller] function '
             'that (transitively, through #[track_caller] frames only) does, must itself be #[track_caller]; otherwise the location recorded in '
             'the blueprint is a line of pavex itself and not the user\'s registration site.')
    LOC = 'core::panic::location::Location::caller'
    bodies = [b for cr in ('pavex_bp_schema', 'pavex') for b in ctx.fb.bodies(cr) if not b.is_promoted and not b.raw.get('exp')]
    by_id = {}
    for b in bodies:
        by_id.setdefault(b.nid, b)
    tracked = set()          # functions whose caller location is observable (track_caller and reach Location::caller)
    changed = True
    direct = {b.nid for b in bodies if any(callee(t) == LOC for _, t in b.calls())}
    while changed:
        changed = False
        for b in bodies:
            if b.nid in tracked or not b.raw.get('tc'):
                continue
            if b.nid in direct or any((callee(t) or '') in tracked for _, t in b.calls()):
                tracked.add(b.nid)
                changed = True
    n = 0
    for b in bodies:
        sites = [(bb, t) for bb, t in b.calls() if callee(t) == LOC or (callee(t) or '') in tracked]
        if not sites:
            continue
        n += 1
        ok = bool(b.raw.get('tc'))
        bb, t = sites[0]
        ctx.ob('C19.R6', 'track-caller|%s' % b.nid.replace('pavex::blueprint::', ''), ok, b.loc(bb, t),
               '%s %s and is %s#[track_caller]' % (b.nid.split('::')[-1], 'calls Location::caller()' if callee(t) == LOC else 'calls the location-recording ' + (callee(t) or '').split('::')[-1] + '()',
                                                 '' if ok else 'NOT '))
    ctx.floor('C19.R6', 'functions that record a caller location', n, 23)


from ..absint_std import StdSem, TagInterp


KINDS = {'path prefix': ('parent_path_prefix', 'str'), 'domain guard': ('parent_domain_guard', 'DomainGuard')}
_BPMOD = 'pavexc::compiler::analyses::user_components::blueprint::'


class _InheritSem(StdSem):
    """the inherited value (a field of the queue item) and the blueprint's own value (a component of the result of
    process_nesting_constraints) are seeded Some / None per case; everything else is the Option algebra of StdSem, crate-local helpers
    of the blueprint module included"""
    crate = 'pavexc'

    def __init__(self, fb, case, sink, dom_block, main):
        super().__init__(fb)
        self.case, self.sink, self.dom_block, self.main = case, sink, dom_block, main
        self.seen = []

    def descend_into(self, short):
        return short.startswith(_BPMOD) and short != self.sink and not short.endswith('process_nesting_constraints')

    def domain_assign(self, interp, path, body, bb, st):
        lhs, rv = st['lhs'], st['rv']
        if lhs.get('p') or body is not self.main:
            return None
        ty = body.locals[lhs['l']]
        if rv['k'] == 'use' and op_place(rv['op']) is not None and op_place(rv['op']).get('p') and ty.startswith('core::option::Option<'):
            src = op_place(rv['op'])
            for kind, (pfield, tyfrag) in KINDS.items():
                if tyfrag in ty:
                    if src['p'][-1] == 'f:' + pfield:
                        return 'opt:' + self.case[kind][0]
                    if path.tags.get((body.id, src['l'])) == 'nesting-constraints':
                        return 'opt:' + self.case[kind][1]
        return None

    def domain_call(self, interp, path, body, bb, term, short):
        d = term.get('dest')
        if short == self.sink and body is self.main and body.dominates(self.dom_block, bb):
            got = {}
            for i, ty in enumerate(term['aty']):
                for kind, (_, tyfrag) in KINDS.items():
                    if ty.startswith('core::option::Option<') and tyfrag in ty:
                        got[kind] = self.arg_tag(path, body, term, i)
            self.seen.append((got, body.loc(bb, term)))
            return []
        if short.endswith('process_nesting_constraints') and d is not None and not d.get('p'):
            dk = (body.id, d['l'])
            path.alias.pop(dk, None)
            path.memo.pop(dk, None)
            path.tags[dk] = 'nesting-constraints'
            return [('next', path)]
        return None


def r7_inheritance(ctx):
    ctx.rule('C19.R7', 'P11 case evaluation: in process_blueprint the path prefix and the domain guard handed to a nested blueprint are evaluated '
             'abstractly (Option algebra; helpers of the blueprint module are entered) for the four combinations inherited Some/None x own '
             'Some/None: the result is Some whenever either is Some, None only when both are None (a nested blueprint without a prefix of '
             'its own keeps the prefix of its ancestors).')
    b = ctx.need('C19.R7', 'process_blueprint', ctx.fb.body('pavexc', _BPMOD + 'process_blueprint'))
    if b is None:
        return
    dom = None
    for bb, j, st in b.all_assigns():
        rv = st['rv']
        if rv['k'] == 'use' and op_place(rv['op']) is not None and (op_place(rv['op']).get('p') or [''])[-1] == 'f:parent_path_prefix':
            dom = bb
    if ctx.need('C19.R7', 'read of QueueItem.parent_path_prefix', dom) is None:
        return
    n = 0
    for parent in ('Some', 'None'):
        for own in ('Some', 'None'):
            case = {k: (parent, own) for k in KINDS}
            sem = _InheritSem(ctx.fb, case, _BPMOD + '_process_blueprint', dom, b)
            TagInterp(sem).run(b, {})
            want = 'opt:Some' if 'Some' in (parent, own) else 'opt:None'
            for kind in KINDS:
                got = sorted({str(g.get(kind)) for g, _ in sem.seen})
                n += 1
                loc = sem.seen[0][1] if sem.seen else b.loc()
                ctx.ob('C19.R7', 'inherit|%s|parent=%s,own=%s' % (kind, parent, own), got == [want], loc,
                       '%s handed to the nested blueprint when the inherited one is %s and its own is %s: %s (expected %s)' % (
                           kind, parent, own, got or 'the nested call was never reached', want[4:]))
    ctx.floor('C19.R7', 'inheritance cases evaluated', n, 8)


def r8_blueprint_file_is_current(ctx):
    ctx.rule('C19.R8', 'P7/P3: Blueprint::persist hands the serialised blueprint to persist_if_changed::persist_if_changed, which rewrites the file unless '
             'its SHA-256 comparison says "unchanged"; that comparison hashes everything it reads (`&buffer[..n]` for the n bytes read() returned, in '
             'the read loop; no read_exact whose short tail is dropped) — otherwise a blueprint that differs from the one on disk only near its '
             'end is not written and the compiler analyses the previous application.')
    from .persist_common import whole_content_hashed
    per = [t for b in ctx.fb.bodies_of_item('pavex', 'pavex::blueprint::blueprint::Blueprint::persist') for _, t in b.calls()
           if (callee(t) or '').startswith('persist_if_changed::')]
    ctx.ob('C19.R8', 'persist-goes-through-persist_if_changed', bool(per), '', 'Blueprint::persist calls %s' % sorted({callee(t) for t in per}))
    whole_content_hashed(ctx, 'C19.R8')


def r9_flags_are_written_as_given(ctx):
    ctx.rule('C19.R9', 'P5 on the attribute macros (proc-macro crate MIR, quote! templates read from the code): whether a `key = value` property is '
             'written into the `#[diagnostic::pavex::..]` attribute depends on whether the user gave the flag (Option / bool tests) and never on '
             'WHICH value of one of the macro crate\'s own enums it has: leaving out a value "because it is the default" relies on the compiler '
             'applying the same default for every kind of component, which it does not (config types default to clone-if-necessary, constructors '
             'to never-clone).')
    from ..quote import chains
    from ..govern import controlling_switches
    MC = ('pavex_macros', 'ProcMacro')
    if MC not in ctx.fb.available():
        ctx.need('C19.R9', 'fact file of the proc-macro crate pavex_macros', None)
        return
    n = 0
    for b in ctx.fb.bodies(*MC):
        if b.is_promoted:
            continue
        for ch in chains(b):
            toks = [t for _, t in ch]
            keys = [str(toks[i][1]) for i in range(len(toks) - 1) if toks[i][0] == 'ident' and toks[i + 1][0] == 'punct' and str(toks[i + 1][1]) == '='
                    and str(toks[i][1])[:1].islower()]
            if not keys:
                continue
            lo = min(bb for bb, _ in ch)
            n += 1
            by_value = sorted({strip_generics(w['enum']).split('::')[-1] for sb, w in controlling_switches(b, lo)
                               if strip_generics(w.get('enum', '')).startswith('pavex_macros::')})
            if by_value:
                ctx.ob('C19.R9', 'written-as-given|%s|%s' % (b.nid.replace('pavex_macros::', ''), keys[0]), False, b.loc(lo),
                       'the emission of `%s = ..` is decided by the value of %s: for some values the user\'s choice is not written into the attribute' % (keys[0], by_value))
    ctx.floor('C19.R9', 'property emissions in the attribute macros', n, 20)
    ctx.ob('C19.R9', 'no-value-dependent-omission', not [o for o in ctx.obs if o.rule == 'C19.R9' and o.key.startswith('written-as-given') and not o.ok], '',
           '%d `key = value` emission templates scanned in pavex_macros' % n)


def r10_setters_overwrite(ctx):
    ctx.rule('C19.R10', 'P3 who-may-call: the blueprint builders record a setting by overwriting: every write to a keyed field of a registered component '
             '(the `lints` map) inside pavex::blueprint is `insert` — never `entry(..).or_insert*`, `try_insert`, or a guard on `contains_key`, '
             'which keep the FIRST value of an overriding call sequence (`.allow(L).deny(L)` must persist `deny`). Positive control: the '
             'overwriting writes themselves.')
    FIRST_WINS = {'or_insert', 'or_insert_with', 'or_insert_with_key', 'or_default', 'try_insert', 'entry', 'contains_key', 'get_or_insert_with'}
    n_ins, bad = 0, []
    for b in ctx.fb.bodies('pavex'):
        if b.is_promoted or 'pavex::blueprint::' not in b.nid:
            continue
        for bb, t in b.calls():
            c = callee(t) or ''
            m = c.split('::')[-1]
            if not (t['aty'] and ('BTreeMap<' in t['aty'][0] or 'HashMap<' in t['aty'][0] or 'Entry<' in t['aty'][0]) and 'pavex_bp_schema::' in t['aty'][0]):
                continue
            if m == 'insert':
                n_ins += 1
            elif m in FIRST_WINS:
                bad.append((b, bb, t, m))
    for b, bb, t, m in bad:
        ctx.ob('C19.R10', 'first-wins-write|%s|%s' % (b.nroot.replace('pavex::blueprint::', ''), m), False, b.loc(bb, t),
               '`%s` on %s in %s: an earlier call of the same setter is kept and the later one ignored' % (m, t['aty'][0][:90], b.nroot.split('::')[-1]))
    ctx.floor('C19.R10', 'overwriting writes (`insert`) to keyed component fields in pavex::blueprint', n_ins, 1)
    ctx.ob('C19.R10', 'setters-overwrite', not bad, '', '%d insert(s), %d first-wins write(s) on keyed component fields' % (n_ins, len(bad)))


IDENTITY_CONVERSIONS = {'to_owned', 'into', 'to_string', 'from', 'clone', 'into_iter', 'iter', 'map', 'collect', 'as_str', 'as_ref', 'deref', 'borrow',
                        'cloned', 'copied', 'to_vec', 'into_boxed_str', 'into_string', 'as_mut', 'caller', 'file', 'line', 'column', 'new'}


def r11_strings_recorded_as_given(ctx, rid='C19.R11', only_field=None, lead=''):
    ctx.rule(rid, lead + 'P7 provenance: every string that pavex::blueprint stores in a value of the blueprint schema (a path prefix, a domain '
             'guard, the module an import is relative to, the coordinates of an annotation ..) reaches the schema through identity '
             'conversions only (`into`, `to_owned`, `to_string`, `clone`, collecting a list). Validation and normalisation are the '
             'COMPILER\'s job and run on what the user wrote: a `trim`, a case fold or a `replace` in the builder means the compiler never sees '
             'the registered text — `pavex.dev..` trimmed to `pavex.dev` is accepted although it has an empty label.')
    n = 0
    for b in ctx.fb.bodies('pavex'):
        if b.is_promoted or '::blueprint::' not in b.nid:
            continue
        defs = None
        for bb, j, st in b.all_assigns():
            rv = st['rv']
            if rv['k'] != 'agg' or rv.get('ak') != 'adt' or not strip_generics(rv['adt']).startswith('pavex_bp_schema::'):
                continue
            for f, o in zip(rv.get('fields', []), rv['ops']):
                pl = op_place(o)
                if pl is None:
                    continue
                ty = b.locals[pl['l']]
                if 'alloc::string::String' not in ty and not ty.endswith('str'):
                    continue
                name = '%s.%s' % (strip_generics(rv['adt']).split('::')[-1], f)
                if only_field is not None and name != only_field:
                    continue
                defs = defs or Defs(b)
                sl, _ = backward_slice(b, pl['l'], defs)
                cs = sorted({(c or '?').split('::')[-1].split('<')[0] for c, _, _ in slice_calls(sl)})
                bad = [c for c in cs if c not in IDENTITY_CONVERSIONS]
                n += 1
                ctx.ob(rid, 'recorded-as-given|%s|%s' % (b.nid.replace('pavex::blueprint::', ''), name), not bad, b.loc(bb, st),
                       '%s is built from the argument through %s%s' % (name, cs or 'a plain move', '' if not bad else ' — NOT identity conversions: %s' % bad))
    ctx.floor(rid, 'strings stored in schema values by pavex::blueprint', n, 1 if only_field else 6)
    # ... and on the way there: a string handed from one builder function to another (Blueprint::domain -> RoutingModifiers::domain) is handed on as given
    m = 0
    for b in ctx.fb.bodies('pavex'):
        if b.is_promoted or '::blueprint::' not in b.nid:
            continue
        defs = None
        for bb, t in b.calls():
            c = strip_generics(callee(t) or '')
            if not c.startswith('pavex::blueprint::'):
                continue
            for i, (a, ty) in enumerate(zip(t['args'], t.get('aty', []))):
                if not (ty.endswith('str') or 'alloc::string::String' in ty) or 'Location' in ty:
                    continue
                pl = op_place(a)
                if pl is None:
                    continue
                name = '%s#%d' % (c.replace('pavex::blueprint::', ''), i)
                if only_field is not None and only_field.split('.')[-1] not in c:
                    continue
                defs = defs or Defs(b)
                sl, _ = backward_slice(b, pl['l'], defs)
                cs = sorted({(x or '?').split('::')[-1].split('<')[0] for x, _, _ in slice_calls(sl)})
                bad = [x for x in cs if x not in IDENTITY_CONVERSIONS]
                m += 1
                ctx.ob(rid, 'handed-on-as-given|%s|%s' % (b.nid.replace('pavex::blueprint::', ''), name), not bad, b.loc(bb, t),
                       'argument %d of %s is built through %s%s' % (i, c, cs or 'a plain move', '' if not bad else ' — NOT identity conversions: %s' % bad))
    ctx.count('strings_handed_between_builder_functions', m)


TRUNCATING = {'map_while', 'take_while', 'take', 'skip', 'skip_while', 'step_by', 'nth', 'last', 'next', 'find', 'find_map', 'first', 'get', 'split_first',
              'split_last', 'rev', 'position', 'fuse', 'scan', 'split_at', 'truncate', 'pop', 'nth_back', 'next_back', 'rfind', 'max', 'min', 'max_by_key', 'min_by_key'}


def r12_every_attribute_is_offered_to_the_parser(ctx):
    ctx.rule('C19.R12', 'P7 provenance of the reader\'s input: `pavexc_annotations::parser::parse_pavex_attributes` hands `pavexc_attr_parser::parse` the '
             'attributes of an item selected BY KIND only (`filter_map` / `filter` over the whole list). Nothing between the attribute list and '
             'the parser stops early or picks by position (`map_while`, `take_while`, `take`, `skip`, `next`, `first` ..): the pavex attribute of a '
             'method in a `#[methods]` block comes AFTER the user\'s own `#[must_use]` / `#[inline]`, and an item whose annotation is not seen is '
             'dropped from the blueprint without a diagnostic.')
    bodies = [b for b in ctx.fb.bodies('pavexc_annotations') if not b.is_promoted and b.nid == b.nroot and b.nid.endswith('parser::parse_pavex_attributes')]
    if not ctx.need('C19.R12', 'pavexc_annotations::parser::parse_pavex_attributes', bodies):
        return
    from ..inline import inlined
    b = inlined(ctx.fb, bodies[0], crate='pavexc_annotations', closures=False)
    defs = Defs(b)
    sinks = [(bb, t) for bb, t in b.calls() if strip_generics(callee(t) or '').endswith('pavexc_attr_parser::parse')]
    if not ctx.need('C19.R12', 'call of pavexc_attr_parser::parse in parse_pavex_attributes', sinks):
        return
    for i, (bb, t) in enumerate(sinks):
        pl = op_place(t['args'][0])
        sl, locs = backward_slice(b, pl['l'], defs) if pl is not None else ([], set())
        from_param = any(1 <= l <= b.raw['argc'] for l in locs)
        cs = sorted({(c or '?').split('::')[-1].split('<')[0] for c, _, _ in slice_calls(sl)})
        bad = [c for c in cs if c in TRUNCATING]
        ctx.ob('C19.R12', 'whole-attribute-list|#%d' % (i + 1), from_param and not bad, b.loc(bb, t),
               'the parser is fed from the attribute list parameter: %s, through %s%s' % (from_param, cs, '' if not bad else ' — truncating / positional adaptor(s): %s' % bad))


# output fields of AnnotationProperties that are legitimately computed from several parsed fields
COMPUTED_PROPERTIES = {('Route', 'method'): 'the method guard is computed from `method`, `allow(any_method)` and `allow(non_standard_methods)` (C07.R10 decides that computation)'}


def r13_reader_hands_on_what_it_parsed(ctx, rid='C19.R13', lead=''):
    from ..govern import governing_fields
    ctx.rule(rid, lead + 'P5/P12 field-by-field conversion on the reader side: `pavexc_attr_parser` parses each `diagnostic::pavex::*` attribute into a '
             '`*Properties` struct and converts it (`From<..Properties> for AnnotationProperties`) into what the compiler consumes. Every field of '
             'the variant that is built comes from the like-named field of the parsed struct, and WHETHER it is handed on does not depend on another '
             'field of that struct: a "normalisation" such as "a transient constructor has no cloning policy" makes '
             '`#[transient(clone_if_necessary)] fn f() -> NotClone` pass the Clone check, which only looks at components whose policy it can see.')
    AP = 'pavexc_attr_parser'
    n = 0
    for b in ctx.fb.bodies(AP):
        if b.is_promoted or b.nid != b.nroot or 'impl core::convert::From for pavexc_attr_parser::AnnotationProperties' not in b.nid:
            continue
        defs = Defs(b)
        src_ty = b.locals[1].split('::')[-1] if b.raw['argc'] >= 1 else '?'
        for bb, j, st in b.all_assigns():
            rv = st['rv']
            if rv['k'] != 'agg' or rv.get('ak') != 'adt' or strip_generics(rv['adt']) != 'pavexc_attr_parser::AnnotationProperties':
                continue
            for fname, o in zip(rv.get('fields', []), rv['ops']):
                n += 1
                key = '%s|%s|%s' % (src_ty, rv['var'], fname)
                if (rv['var'], fname) in COMPUTED_PROPERTIES:
                    ctx.ob(rid, 'handed-on|' + key, True, b.loc(bb, st), 'reviewed: ' + COMPUTED_PROPERTIES[(rv['var'], fname)], nontrivial=False)
                    continue
                pl = op_place(o)
                if pl is None:
                    ctx.ob(rid, 'handed-on|' + key, False, b.loc(bb, st), '%s.%s is a constant: the parsed value is dropped' % (rv['var'], fname))
                    continue
                sl, locs = backward_slice(b, pl['l'], defs)
                reads = field_reads_of_slice(sl) | field_reads_of_place(pl)
                gov = set()
                for l in locs | {pl['l']}:
                    for dbb, _, _ in defs.full.get(l, []):
                        gov |= governing_fields(b, dbb, defs)
                gov |= governing_fields(b, bb, defs)
                other = sorted(g for g in gov if g != fname and g in _input_fields(ctx, AP, b.locals[1]))
                ok = fname in reads and not other
                ctx.ob(rid, 'handed-on|' + key, ok, b.loc(bb, st),
                       '%s.%s is filled from parsed field(s) %s%s' % (rv['var'], fname, sorted(reads & _input_fields(ctx, AP, b.locals[1])) or sorted(reads),
                                                                  '' if not other else ' — and whether it is depends on the parsed field(s) %s' % other))
    ctx.floor(rid, 'fields of AnnotationProperties built by the From conversions', n, 15)


def _input_fields(ctx, crate, ty):
    name = strip_generics(ty).lstrip('&')
    try:
        adt = ctx.fb.adt(crate, name)
    except Exception:
        adt = None
    if not adt:
        return set()
    out = set()
    for v in adt.get('variants', []):
        for f in v.get('fields', []):
            out.add((f.get('n') or f.get('name')) if isinstance(f, dict) else f)
    return out


def r14_an_explicit_call_is_recorded(ctx, rid='C19.R14', lead=''):
    ctx.rule(rid, lead + 'P3 value audit of the blueprint setters: every `Registered*` method of pavex::blueprint that sets an optional property of the '
             'component it registered (`required()`, `default_if_missing()`, `include_if_unused()`, `never_clone()`, `cloning(..)`, `lifecycle(..)`, '
             'lints ..) stores `Some(..)`. In the persisted blueprint `None` means "the user said nothing here, use the annotation": a setter that '
             'writes `None` "because that is the default anyway" turns an explicit override into no override — `bp.config(X).required()` on a type '
             'annotated `default_if_missing` still gets `#[serde(default)]`, and a key missing from all three sources loads as `X::default()` '
             'instead of failing.')
    n = 0
    for b in ctx.fb.bodies('pavex'):
        if b.is_promoted or b.nid != b.nroot or '::blueprint::' not in b.nid or '::Registered' not in b.nid:
            continue
        if b.raw['argc'] < 1 or b.locals[0] != b.locals[1]:
            continue      # a builder method: takes `self`, returns `Self`
        defs = Defs(b)
        for bb, j, st in b.all_assigns():
            lhs = st['lhs']
            fs = [e for e in lhs.get('p', []) if e.startswith('f:')]
            if not fs or not (st.get('lty') or '').startswith('core::option::Option<'):
                continue
            n += 1
            rv = st['rv']
            src = None
            if rv['k'] == 'agg' and strip_generics(rv.get('adt', '')) == 'core::option::Option':
                src = rv['var']
            elif rv['k'] == 'use' and op_place(rv['op']) is not None:
                sl, _ = backward_slice(b, op_place(rv['op'])['l'], defs, through_calls=False)
                vs = {n2['rv']['var'] for _, _, n2 in sl if 'rv' in n2 and n2['rv']['k'] == 'agg' and strip_generics(n2['rv'].get('adt', '')) == 'core::option::Option'}
                src = 'None' if vs == {'None'} else ('Some' if vs else '?')
            ctx.ob(rid, 'recorded-as-some|%s|%s' % (b.nid.replace('pavex::blueprint::', ''), fs[-1][2:]), src != 'None', b.loc(bb, st),
                   '%s writes %s into `%s`' % (b.nid.split('::')[-1], src or 'a computed value', fs[-1][2:]))
    ctx.floor(rid, 'optional properties written by the Registered* setters', n, 8)


def r15_method_set_reaches_the_compiler_as_written(ctx):
    ctx.rule('C19.R15', 'shared with C07.R10: the set of methods written in a route attribute reaches the compiler unchanged — `MethodGuard::Any` is produced only when '
             'the attribute asks for it (`allow(any_method, non_standard_methods)`), never as a "normalisation" of a list that happens to contain the nine '
             'standard methods.')
    from .c07 import r10_any_guard_only_on_request
    from ..engine import Ctx
    side = Ctx(ctx.prop, ctx.fb, ctx.tier)
    r10_any_guard_only_on_request(side)
    for ob in side.obs:
        ctx.ob('C19.R15', ob.key, ob.ok, ob.loc, ob.detail, ob.nontrivial)


def r16_reader_goes_as_deep_as_the_writer(ctx):
    ctx.rule('C19.R16', 'P3/P7 writer/reader agreement on depth: RON counts nesting differently when writing and when reading, so a reader with the default '
             'recursion limit refuses files the writer produced (a blueprint nested 16 levels deep). Every RON read of `pavex_bp_schema::Blueprint` '
             '(Blueprint::load in pavex, the `generate` command of pavexc) goes through `ron::Options` whose provenance contains '
             '`without_recursion_limit()` and no `with_recursion_limit(..)`: the writer\'s own limit is what bounds the file.')
    fb = ctx.fb
    readers = []
    for crate, ctype in (('pavex', 'Rlib'), ('pavexc', 'Executable'), ('pavexc', 'Rlib'), ('pavex_cli', 'Executable'), ('pavex', 'Executable')):
        try:
            bodies = fb.bodies(crate, ctype)
        except Exception:
            continue
        for b in bodies:
            if b.is_promoted:
                continue
            for bb, t in b.calls():
                c = callee(t) or ''
                if not (c.startswith('ron::de::from_') or c.startswith('ron::options::Options::from_')):
                    continue
                if 'pavex_bp_schema::Blueprint' not in ' '.join(t.get('ga', [])):
                    continue
                readers.append((crate, b, bb, t, c))
    ctx.floor('C19.R16', 'RON readers of the blueprint schema', len(readers), 2)
    for crate, b, bb, t, c in readers:
        ok, why = False, '%s uses the default recursion limit' % c
        if c.startswith('ron::options::Options::from_'):
            pl = op_place(t['args'][0]) if t['args'] else None
            calls = set()
            if pl is not None:
                sl, _ = backward_slice(b, pl['l'], Defs(b))
                calls = {x[0] for x in slice_calls(sl)}
            lifted = any(x.endswith('Options::without_recursion_limit') for x in calls)
            limited = any(x.endswith('Options::with_recursion_limit') for x in calls)
            ok = lifted and not limited
            why = 'options built by %s' % sorted(x.split('::')[-1] for x in calls if x.startswith('ron::'))
        ctx.ob('C19.R16', 'reader-unbounded|%s|%s' % (crate, b.nroot.split('::')[-1]), ok, b.loc(bb, t), why)


def r17_macro_strings_are_written_as_given(ctx, rid='C19.R17', lead='', only=None):
    ctx.rule(rid, lead + 'P7 provenance on the attribute macros (proc-macro crate MIR): the `Properties` value an attribute macro emits into '
             '`#[diagnostic::pavex::*(..)]` is built from the parsed `InputSchema` in `TryFrom::try_from`; every string in it (a config key, a route path, '
             'an error handler path) is the string the user wrote, moved or converted by identity conversions only. A case fold or trim here means the '
             'compiler is told a different key / path than the one in the user\'s source and configuration files.')
    n = 0
    for b in ctx.fb.bodies('pavex_macros', 'ProcMacro'):
        if b.is_promoted or 'TryFrom>::try_from' not in b.nid:
            continue
        defs = None
        for bb, j, st in b.all_assigns():
            rv = st['rv']
            if rv['k'] != 'agg' or rv.get('ak') != 'adt' or not strip_generics(rv['adt']).endswith('::Properties'):
                continue
            owner = strip_generics(rv['adt']).replace('pavex_macros::', '')
            if only is not None and not owner.startswith(only):
                continue
            for f, o in zip(rv.get('fields', []), rv['ops']):
                pl = op_place(o)
                if pl is None or 'String' not in b.locals[pl['l']]:
                    continue
                defs = defs or Defs(b)
                sl, _ = backward_slice(b, pl['l'], defs)
                cs = sorted({(c or '?').split('::')[-1].split('<')[0] for c, _, _ in slice_calls(sl)})
                bad = [c for c in cs if c not in IDENTITY_CONVERSIONS and c not in ('value', 'branch', 'from_residual')]
                n += 1
                ctx.ob(rid, 'written-as-given|%s.%s' % (owner, f), not bad, b.loc(bb, st),
                       '%s.%s is built from the parsed input through %s%s' % (owner, f, cs or 'a plain move', '' if not bad else ' — NOT identity conversions: %s' % bad))
    ctx.floor(rid, 'string fields of the Properties values built by the attribute macros', n, 1 if only else 4)


DISCARDING = {'retain', 'retain_mut', 'dedup', 'dedup_by', 'dedup_by_key', 'filter', 'filter_map', 'truncate', 'remove', 'swap_remove', 'pop', 'drain', 'skip',
              'take', 'skip_while', 'take_while', 'map_while', 'step_by', 'split_off', 'clear', 'extract_if'}


def r18_every_source_of_from_reaches_the_import(ctx):
    from ..govern import controlling_switches
    from .c04 import SHAPE_CALLS
    ctx.rule('C19.R18', 'P12 decision audit on the `from!` macro (proc-macro crate MIR): every module path written in `from![..]` becomes one source of the emitted '
             '`Import`. In the functions of pavex_macros::from, whether a source is pushed depends only on the shape of the input (the loop over the paths, '
             'whether validation failed, the wildcard test) - never on a comparison with the other sources - and no list of sources is filtered, '
             'de-duplicated or truncated (`retain`, `dedup`, `filter`, ..): "a parent module already covers it" is the compiler\'s call, and '
             '`super::super::shared` is not inside `super`.')
    bodies = [b for b in ctx.fb.bodies('pavex_macros', 'ProcMacro') if not b.is_promoted and b.file.endswith('pavex_macros/src/from.rs')]
    if not ctx.need('C19.R18', 'bodies of pavex_macros/src/from.rs', bodies):
        return
    n = 0
    disc = []
    by_id = {}
    for b in bodies:
        by_id.setdefault(b.nid, []).append(b)
    for b in bodies:
        defs = Defs(b)
        for bb, t in b.calls():
            c = callee(t) or ''
            m = c.split('::')[-1].split('<')[0]
            if m in DISCARDING and ('Vec' in c or 'iter' in c.lower() or 'slice' in c):
                disc.append('%s at %s' % (m, b.loc(bb, t)))
            if m not in ('push', 'extend', 'insert', 'push_back') or not any('String' in (a or '') for a in t.get('aty', [])[1:]):
                continue
            if 'Vec' not in c:
                continue
            n += 1
            bad = []
            for sb, st in controlling_switches(b, bb):
                if 'enum' in st:
                    continue
                pl = op_place(st['d'])
                sl, _ = backward_slice(b, pl['l'], defs) if pl is not None else ([], set())
                cs = {x.split('::')[-1].split('<')[0] for x, _, _ in slice_calls(sl)}
                # a predicate closure handed to any / all / position is a shape test iff its own body calls nothing but shape tests
                # (`matches!(p, ModulePath::Wildcard(_))` compiles to a discriminant switch; `source.starts_with(r)` is a comparison)
                for _, _, nd in sl:
                    rv_ = nd.get('rv') or {}
                    if rv_.get('k') == 'agg' and rv_.get('ak') == 'closure':
                        for cb in by_id.get(strip_generics(rv_['def']), []):
                            cs |= {'closure:' + (callee(u) or '?').split('::')[-1].split('<')[0] for _, u in cb.calls()
                                   if (callee(u) or '?').split('::')[-1].split('<')[0] not in SHAPE_CALLS}
                if cs and not (cs - SHAPE_CALLS - {'any', 'all', 'branch', 'parse', 'parse2'}):
                    continue
                bad.append('%s at %s' % (sorted(cs) or 'a flag', b.loc(sb)))
            ctx.ob('C19.R18', 'source-always-pushed|%s|#%d' % (b.nid.replace('pavex_macros::', ''), n), not bad, b.loc(bb, t),
                   'the push of a source is governed by shape tests only%s' % ('' if not bad else ' — NO: it also depends on ' + '; '.join(bad)))
    ctx.floor('C19.R18', 'pushes of a source in pavex_macros::from', n, 1)
    ctx.ob('C19.R18', 'no-source-list-is-filtered', not disc, bodies[0].loc(), 'discarding operations in pavex_macros/src/from.rs: %s' % (disc or 'none'))


def check(ctx):
    r18_every_source_of_from_reaches_the_import(ctx)
    r17_macro_strings_are_written_as_given(ctx)
    r16_reader_goes_as_deep_as_the_writer(ctx)
    r15_method_set_reaches_the_compiler_as_written(ctx)
    r14_an_explicit_call_is_recorded(ctx)
    r13_reader_hands_on_what_it_parsed(ctx)
    r12_every_attribute_is_offered_to_the_parser(ctx)
    r11_strings_recorded_as_given(ctx)
    r10_setters_overwrite(ctx)
    r9_flags_are_written_as_given(ctx)
    r8_blueprint_file_is_current(ctx)
    r1_schema_symmetry(ctx)
    s2v = r2_conversions(ctx)
    r3_append_only(ctx)
    r4_exhaustive_reader(ctx)
    r5_attribute_keys(ctx, s2v or {})
    r6_caller_locations(ctx)
    r7_inheritance(ctx)


CLAUSE += ' Also: the RON reader goes as deep as the writer; strings are handed between builder functions and written by the attribute macros as given; every source of from! reaches the Import.'
