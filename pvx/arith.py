"""Small value reasoning that is visible in the shape of the code: a checked subtraction that a dominating comparison makes safe.

    if n > rem { return Err(..) }        switch on Gt(n, rem): the false edge implies n <= rem
    rem -= n;                            SubWithOverflow(rem, n) + assert(!overflow): cannot fire on that edge

Operands are compared by their root locals (copies followed while a local has exactly one definition); neither root may be assigned
between the comparison and the subtraction."""
from .facts import op_place


def root_local(b, defs, op):
    pl = op_place(op)
    if pl is None or pl.get('p'):
        return None
    l = pl['l']
    for _ in range(10):
        ds = defs.full.get(l, [])
        if len(ds) != 1 or 'rv' not in ds[0][2]:
            return l
        rv = ds[0][2]['rv']
        if rv['k'] != 'use':
            return l
        q = op_place(rv['op'])
        if q is None or q.get('p'):
            return l
        l = q['l']
    return l


def checked_sub_in(b, bb):
    """(stmt, a, b) of the SubWithOverflow whose overflow flag the Assert terminator of block bb tests"""
    t = b.term(bb)
    if not t or t['k'] != 'assert':
        return None
    c = op_place(t['cond'])
    if c is None or c.get('p') != ['f:1']:
        return None
    for st in b.stmts(bb):
        if 'lhs' in st and st['lhs'] == {'l': c['l']} and st['rv']['k'] == 'bin' and st['rv']['bop'] == 'SubWithOverflow':
            return st
    return None


def guarding_comparisons(b, defs, big, small):
    """[(switch block, edge target on which `small <= big` holds, other edge target)] for comparisons of the two root locals"""
    out = []
    for sb in b.live_blocks():
        w = b.term(sb)
        if not w or w['k'] != 'switch' or 'enum' in w or len(w['ts']) != 1 or w['ts'][0][0] != '0':
            continue
        d = op_place(w['d'])
        if d is None or d.get('p'):
            continue
        ds = defs.full.get(d['l'], [])
        if len(ds) != 1 or 'rv' not in ds[0][2] or ds[0][2]['rv']['k'] != 'bin':
            continue
        rv = ds[0][2]['rv']
        x, y = root_local(b, defs, rv['a']), root_local(b, defs, rv['b'])
        f_edge, t_edge = w['ts'][0][1], w['else']
        holds = None
        if (x, y) == (small, big):        # small <op> big
            holds = {'Gt': f_edge, 'Le': t_edge, 'Ge': f_edge, 'Lt': t_edge}.get(rv['bop'])      # `!(small >= big)` and `small < big` both imply small <= big
        elif (x, y) == (big, small):      # big <op> small
            holds = {'Lt': f_edge, 'Ge': t_edge, 'Le': f_edge, 'Gt': t_edge}.get(rv['bop'])
        if holds is not None:
            out.append((sb, holds, t_edge if holds == f_edge else f_edge))
    return out


def sub_is_guarded(b, defs, bb):
    """the checked subtraction asserted in block bb cannot underflow: a dominating comparison of the same two values leaves only the
    `subtrahend <= minuend` edge, and neither value is assigned in between"""
    st = checked_sub_in(b, bb)
    if st is None:
        return False
    big, small = root_local(b, defs, st['rv']['a']), root_local(b, defs, st['rv']['b'])
    if big is None or small is None:
        return False
    for sb, good, bad in guarding_comparisons(b, defs, big, small):
        if not b.dominates(sb, bb):
            continue
        if bb in b.reachable(bad, avoid=[sb]):
            continue
        between = {x for x in b.reachable(good, avoid=[bb, sb]) if bb in b.reachable([x], avoid=[sb])}
        dirty = False
        for x in between:
            for s2 in b.stmts(x):
                if 'lhs' in s2 and not s2['lhs'].get('p') and s2['lhs']['l'] in (big, small):
                    dirty = True
            t2 = b.term(x)
            if t2 and t2['k'] == 'call' and t2.get('dest') and not t2['dest'].get('p') and t2['dest']['l'] in (big, small):
                dirty = True
        if not dirty:
            return True
    return False
