"""C09 — The compiler always terminates with a verdict and fails atomically.

Decided clauses: R1 no silent failure (every way `generate` can return failure has pushed an error first); R2 files are
written only after a successful build / codegen and the main source file is the last fallible step; the error gate treats
severity-less diagnostics as errors; R3 progress-flag hygiene in the borrow-check fixpoint (the structural core of its
termination argument). Termination and panic-freedom in general are not decided.
"""
from ..facts import callee, callee_resolved, op_place, strip_generics
from ..flow import Defs, backward_slice, slice_calls, forward_derived, rv_operands
from ..govern import controlling_switches
from ..tables import enum_switches, switch_arms, switch_edges, guard_context
from .compiler_common import PX, SINK, PUSH, cg, may_push, must_push, err_unit_sites

LEVEL = 'other'
TECHNIQUE = 'static analysis: interprocedural no-silent-failure classification over the call graph (must-push fixpoint, gates, flags and counters), case evaluation of generate() by abstract interpretation (build/codegen outcomes), typestate of the progress flag, slicing-bound and span-arithmetic provenance'
CLAUSE = ('every path on which App::build (hence `pavexc generate`) reports failure has first pushed an error diagnostic or passed an '
          'error gate, transitively through every Result<_, ()> helper; the CLI writes files only on the Ok arm of build()/codegen() and '
          'returns FAILURE on the Err arm; the error gate counts diagnostics without a severity as errors; lib.rs is the last fallible '
          'step of persist; in the borrow-check fixpoint the strategy machine escalates Park->Clone->Error and the flag that licenses the '
          'only non-escalating transition is cleared when that transition is taken. Every fallible call from pavexc into rustdoc_processor has its Err propagated, unwrapped or reported on every path; ids from the persisted access log reach compute_batch only through the package-graph filter; checked subtractions in the early passes are guarded or reviewed.')
TRUSTED = ['miette treats a diagnostic without severity as an error when rendering', 'panics are outside this rule (belief sites are not discharged statically)']

APP_BUILD = PX + 'app::App::build'
GATES = {'has_errored', 'is_empty', 'len'}


def _unit_fns(ctx):
    return {strip_generics(f['id']) for f in ctx.fb.fns('pavexc') if f['output'].endswith(', ()>')}


def _classify_own(ctx, b, bb, mp, unit_fns, defs):
    """coverage classes of an Err site at block bb: returns (classes, propagated_from)"""
    classes = []
    must = must_push(ctx)
    A = [callee_resolved(t) for cb, t in b.calls() if (callee_resolved(t) in must or callee(t) in must) and cb != bb and b.dominates(cb, bb)]
    if A:
        classes.append('A:pushed-before(%s)' % sorted({a.split('::')[-1] for a in A})[0])
    prop = set()
    for sb, sw in controlling_switches(b, bb):
        srcs = []
        pl = op_place(sw['d'])
        if pl:
            srcs.append(pl['l'])
        if 'src' in sw:
            srcs.append(sw['src']['l'])
        for l in srcs:
            sl, locs = backward_slice(b, l, defs)
            for c, _, n in slice_calls(sl):
                if c and c.startswith(SINK) and c.split('::')[-1] in GATES:
                    classes.append('B:gate(%s)' % c.split('::')[-1])
                if c in unit_fns and strip_generics(sw.get('enum', '')) == 'core::result::Result':
                    prop.add(c)
            # C': `if g(..).is_err() { return Err(()) }`
            for c, _, n in slice_calls(sl) if False else []:
                pass
            calls_in = [(c, n) for c, _, n in slice_calls(sl)]
            if any(c in ('core::result::Result::is_err', 'core::result::Result::is_ok') for c, _ in calls_in):
                for c, _ in calls_in:
                    if c in unit_fns:
                        prop.add(c)
            # D: local error flag
            if 'enum' not in sw and pl is not None:
                flags = {x for x in locs if b.locals[x] == 'bool'}
                for fl in flags:
                    sets = [xb for xb, j, st in b.all_assigns() if st['lhs'] == {'l': fl} and st['rv']['k'] == 'use' and st['rv']['op'].get('int') == '1']
                    if not sets:
                        continue
                    pushes = [cb for cb, t in b.calls() if callee_resolved(t) in must or callee(t) in must]
                    ok = all(x in pushes or any(b.dominates(p, x) for p in pushes) or (bb not in b.reachable([y for y in b.succ(x) if y not in pushes], avoid=pushes)) for x in sets)
                    if ok:
                        classes.append('D:flag-set-only-with-push')
                # D': a local counter that starts at 0 and is only incremented together with a push (`n += 1; push(..)` .. `if n == 0 { Ok } else { Err }`)
                for cn in {x for x in locs if b.locals[x] in ('usize', 'u8', 'u16', 'u32', 'u64')}:
                    asg = [(xb, st) for xb, j, st in b.all_assigns() if st['lhs'] == {'l': cn}]
                    zero = [xb for xb, st in asg if st['rv']['k'] == 'use' and st['rv']['op'].get('int') == '0']
                    incs = []
                    for xb, st in asg:
                        rv = st['rv']
                        src = op_place(rv['op']) if rv['k'] == 'use' else None
                        if src is not None and src.get('p') == ['f:0']:
                            d0 = [n2 for _, _, n2 in defs.full.get(src['l'], []) if 'rv' in n2 and n2['rv']['k'] == 'bin' and n2['rv']['bop'] in ('AddWithOverflow', 'Add')]
                            if d0:
                                incs.append(xb)
                    if not zero or not incs or len(zero) + len(incs) != len(asg):
                        continue
                    pushes = [cb for cb, t in b.calls() if callee_resolved(t) in must or callee(t) in must]
                    ok = all(x in pushes or any(b.dominates(p, x) for p in pushes) or (bb not in b.reachable([y for y in b.succ(x) if y not in pushes], avoid=pushes)) for x in incs)
                    if ok:
                        classes.append('D:counter-incremented-only-with-push')
            # F: `if !xs.is_empty() { for x in xs { push(..) } Err(()) }`
            empt = [n for c, n in calls_in if c and c.endswith('::is_empty') and not c.startswith(SINK)]
            if empt:
                recv = set()
                for n in empt:
                    q = op_place(n['args'][0])
                    if q:
                        _, l2 = backward_slice(b, q['l'], defs, through_calls=False)
                        recv |= l2
                for cb, t in b.calls():
                    if (callee_resolved(t) in must or callee(t) in must) and cb in b.reachable(b.succ(cb)) and bb in b.reachable(cb) and b.dominates(sb, cb):
                        # the loop iterates the tested collection
                        for ib, it in b.calls():
                            if callee(it) == 'core::iter::traits::collect::IntoIterator::into_iter' and b.dominates(ib, cb) and b.dominates(sb, ib):
                                q = op_place(it['args'][0])
                                if q:
                                    _, l3 = backward_slice(b, q['l'], defs, through_calls=False)
                                    if l3 & recv:
                                        classes.append('F:pushes-for-each-item-of-a-non-empty-collection')
    return classes, prop


def r1_no_silent_failure(ctx):
    ctx.rule('C09.R1', 'P1 interprocedural: every `Err(())` construction in a Result<_, ()> function of pavexc, and every `return Err(sink)` of '
             'App::build, is covered: (A) dominated by a call that pushes a diagnostic on every one of its paths (must-push, computed as a fixpoint from DiagnosticSink::push), (B) guarded by a sink gate (has_errored / len '
             'growth / !is_empty), (D) guarded by a local flag that is only set together with a push, or (C) the propagation (let-else or '
             '`?`) of the Err of a callee that is itself never silent. A silent helper is tolerated only if no caller propagates its Err. '
             'Fixpoint over the call graph of pavexc.')
    g, mp = cg(ctx)
    unit_fns = _unit_fns(ctx)
    funcs = sorted(unit_fns | {APP_BUILD})
    info = {}
    for f in funcs:
        sites = []
        for b in ctx.fb.bodies_of_item('pavexc', f):
            defs = Defs(b)
            own = err_unit_sites(b)
            if f == APP_BUILD:
                own = [(bb, st) for bb, j, st in b.all_assigns() if st['rv']['k'] == 'agg' and st['rv'].get('var') == 'Err'
                       and strip_generics(st['rv'].get('adt', '')) == 'core::result::Result' and b is ctx.fb.body('pavexc', APP_BUILD)]
            for bb, st in own:
                classes, prop = _classify_own(ctx, b, bb, mp, unit_fns, defs)
                sites.append({'kind': 'own', 'b': b, 'bb': bb, 'node': st, 'classes': classes, 'prop': prop})
            # `?` on a unit-error callee
            for bb, t in b.calls():
                if callee(t) == 'core::ops::try_trait::Try::branch' and t['aty'][0].endswith(', ()>'):
                    pl = op_place(t['args'][0])
                    sl, _ = backward_slice(b, pl['l'], defs) if pl else ([], set())
                    cs = [c for c, _, _ in slice_calls(sl)]
                    src = {c for c in cs if c in unit_fns}
                    foreign = [c for c in cs if c and c not in unit_fns and c.split('::')[-1] in ('map_err', 'ok_or', 'ok_or_else')]
                    pushed = [c for c in cs if c in must_push(ctx)]
                    sites.append({'kind': 'try', 'b': b, 'bb': bb, 'node': t, 'classes': (['A:callee-may-push'] if pushed and not src else []), 'prop': src,
                                  'foreign': bool(foreign) and not src})
        info[f] = sites
    silent = set()
    changed = True
    while changed:
        changed = False
        for f, sites in info.items():
            if f in silent:
                continue
            for s in sites:
                covered = bool(s['classes']) or (bool(s['prop']) and not (s['prop'] & silent))
                if not covered:
                    silent.add(f)
                    changed = True
                    break
    # who propagates whom
    propagated_by = {}
    for f, sites in info.items():
        for s in sites:
            for c in s['prop']:
                if not s['classes']:
                    propagated_by.setdefault(c, set()).add(f)
    reach = g.reachable({APP_BUILD})
    n_sites = 0
    for f, sites in info.items():
        if f not in reach and f != APP_BUILD:
            continue
        for i, s in enumerate(sites):
            n_sites += 1
            covered = bool(s['classes']) or (bool(s['prop']) and not (s['prop'] & silent))
            tolerated = False
            if not covered:
                # does the silence escape? only if some caller propagates f's Err (transitively to the top)
                esc, work, seen = False, [f], set()
                while work:
                    x = work.pop()
                    if x in seen:
                        continue
                    seen.add(x)
                    if x == APP_BUILD:
                        esc = True
                    work += list(propagated_by.get(x, ()))
                tolerated = not esc
            short = f.replace(PX, '').replace('analyses::', '')
            how = '; '.join(s['classes']) or ('propagates ' + ','.join(sorted(x.split('::')[-1] for x in s['prop'])) if s['prop'] else 'NOT COVERED')
            if s['prop'] & silent and not s['classes']:
                how = 'propagates the Err of silent ' + ','.join(sorted(x.split('::')[-1] for x in s['prop'] & silent))
            key = 'site|%s|%s|%d' % (short, s['kind'], sum(1 for z in sites[:i] if z['kind'] == s['kind']))
            ctx.ob('C09.R1', key, covered or tolerated, s['b'].loc(s['bb'], s['node']),
                   '%s%s' % (how, ' — tolerated: no caller propagates this Err up to App::build (the failure is swallowed, not a silent exit)' if tolerated else
                             ('' if covered else ': generate can exit non-zero with no error printed')))
    ctx.count('err_sites_checked', n_sites)
    ctx.floor('C09.R1', 'Result<_, ()> functions', len(unit_fns), 22)
    ctx.floor('C09.R1', 'failure sites checked', n_sites, 25)


def r2_writes_after_success(ctx):
    ctx.rule('C09.R2', 'P1/P2: in pavexc_cli `generate`, every file-writing call (GeneratedApp::persist, App::persist_flat, AppWriter::*) is '
             'under the Ok arm of App::build (and, for the SDK, dominated by App::codegen()?), the Err arm leads to ExitCode::FAILURE; '
             'DiagnosticSink::has_errored counts a diagnostic with no severity as an error; in GeneratedApp::persist the write of lib.rs is '
             'the last fallible step.')
    gen = [b for b in ctx.fb.bodies('pavexc', 'Executable') if not b.is_promoted and b.nid == 'pavexc::generate']
    gen = ctx.need('C09.R2', 'pavexc_cli generate()', gen[0] if gen else None)
    if gen is not None:
        # P11 case evaluation: generate() interpreted for each outcome of App::build and App::codegen
        from ..absint_std import StdSem, TagInterp
        SDK_WRITER = PX + 'generated_app::GeneratedApp::persist'
        WRITERS = {SDK_WRITER: 'persist', PX + 'app::App::persist_flat': 'persist_flat'}

        class Sem(StdSem):
            crate = None

            def __init__(self, fb, build, codegen):
                super().__init__(fb)
                self.case = {APP_BUILD: build, PX + 'app::App::codegen': codegen}
                self.seen = {}

            def domain_call(self, interp, path, body, bb, term, short):
                d = term.get('dest')
                dk = (body.id, d['l']) if d is not None and not d.get('p') else None
                if short in self.case and dk is not None:
                    self.seen[short] = self.seen.get(short, 0) + 1
                    path.alias.pop(dk, None)
                    path.memo.pop(dk, None)
                    path.tags[dk] = self.case[short]
                    return [('next', path)]
                w = WRITERS.get(short) or ('verify' if short.startswith('pavexc::persistence::AppWriter::verify') else None)
                if w:
                    path.env['w:' + w] = True
                    self.seen['w:' + w] = True
                return None

            def domain_assign(self, interp, path, body, bb, st):
                rv = st['rv']
                ops = rv_operands(rv)[0]
                for o in ops:
                    u = str(o.get('uneval', ''))
                    if 'ExitCode::FAILURE' in u:
                        path.env['exit'] = 'FAILURE'
                    elif 'ExitCode::SUCCESS' in u:
                        path.env['exit'] = 'SUCCESS'
                return None

        from ..inline import inlined
        # generate() may be split into private phases (analyse / emit) of the binary crate: put back the ones that lead to the build or the writers
        from ..callgraph import CallGraph
        cge = CallGraph(ctx.fb, [('pavexc', 'Executable')])
        lead = cge.reaching({APP_BUILD, PX + 'app::App::codegen', PX + 'generated_app::GeneratedApp::persist', PX + 'app::App::persist_flat'})
        gen = inlined(ctx.fb, gen, only=lambda cb: cb.nroot in lead)
        results = {}
        for bcase in ('res:Ok', 'res:Err'):
            for ccase in ('res:Ok', 'res:Err'):
                sem = Sem(ctx.fb, bcase, ccase)
                outs = TagInterp(sem).run(gen, {})
                results[(bcase, ccase)] = (sem, outs)
        sem_e, outs_e = results[('res:Err', 'res:Ok')]
        ctx.need('C09.R2', 'App::build call in generate', sem_e.seen.get(APP_BUILD))
        wrote = sorted(k for k in sem_e.seen if k.startswith('w:'))
        not_fail = [oc for oc in outs_e if oc[0] == 'return' and oc[1].tags.get((gen.id, 0)) != 'res:Err' and oc[1].env.get('exit') != 'FAILURE']
        ctx.ob('C09.R2', 'build-failure-writes-nothing', not wrote and not not_fail and bool(outs_e), gen.loc(),
               'generate() interpreted with App::build failing: writers reached: %s; returning paths that are neither Err nor ExitCode::FAILURE: %d of %d'
               % (wrote or 'none', len(not_fail), len(outs_e)))
        sem_c, outs_c = results[('res:Ok', 'res:Err')]
        ctx.ob('C09.R2', 'write-after-success|persist', not sem_c.seen.get('w:persist') and bool(sem_c.seen.get(PX + 'app::App::codegen')), gen.loc(),
               'generate() interpreted with App::codegen failing: the SDK writer GeneratedApp::persist is reached: %s' % bool(sem_c.seen.get('w:persist')))
        sem_o, outs_o = results[('res:Ok', 'res:Ok')]
        ctx.ob('C09.R2', 'success-writes-the-sdk', bool(sem_o.seen.get('w:persist')) and any(oc[0] == 'return' and oc[1].env.get('exit') == 'SUCCESS' for oc in outs_o), gen.loc(),
               'generate() interpreted with build and codegen succeeding: GeneratedApp::persist is reached (%s) and a path returns ExitCode::SUCCESS'
               % bool(sem_o.seen.get('w:persist')), nontrivial=False)
    # has_errored: None severity counts
    # the predicate "this diagnostic counts as an error" lives in has_errored, or (if the sink keeps a running count) where diagnostics are pushed
    he = ctx.fb.bodies_of_item('pavexc', SINK + 'has_errored')
    if he:
        he = he + [x for x in ctx.fb.bodies('pavexc') if not x.is_promoted and x not in he and x.file == he[0].file]
    if ctx.need('C09.R2', 'DiagnosticSink::has_errored', he):
        none_ok = False
        err_cmp = False

        def yields_true(b, start):
            """following straight-line control flow from `start`, a bool is set to `true` before any further test"""
            bb, seen = start, set()
            while bb is not None and bb not in seen:
                seen.add(bb)
                for s_ in b.stmts(bb):
                    if s_.get('rv', {}).get('k') == 'use' and s_['rv']['op'].get('int') == '1' and b.locals[s_['lhs']['l']] == 'bool':
                        return True
                t_ = b.term(bb)
                bb = t_['t'] if t_ and t_['k'] in ('goto', 'drop') else None
            return False
        for b in he:
            for bb, t in b.calls():
                if callee(t) == 'core::option::Option::is_none' and 'Severity' in t['aty'][0]:
                    none_ok = True
            for sb, st in enum_switches(b, 'core::option::Option'):
                e = switch_edges(st)
                if 'None' in e and yields_true(b, e['None']):
                    none_ok = True
                if 'None' in e:
                    # None arm must produce `true`
                    arms = switch_arms(b, sb)
                    for bb in arms.get('None', ()):
                        for s in b.stmts(bb):
                            if s.get('rv', {}).get('k') == 'use' and s['rv']['op'].get('int') == '1':
                                none_ok = True
            for sb, st in enum_switches(b, 'miette::protocol::Severity'):
                e = switch_edges(st)
                if 'Error' in e and yields_true(b, e['Error']):
                    err_cmp = True
            for bb, t in b.calls():
                if (callee(t) or '').startswith('core::cmp::PartialEq::eq') and 'Severity' in t['aty'][0]:
                    err_cmp = True
        ctx.ob('C09.R2', 'gate-counts-severity-less', none_ok and err_cmp, he[0].loc(),
               'has_errored() is true for Severity::Error (%s) and for diagnostics with no severity (%s) — raw miette errors pushed by the sink are printed as errors' % (err_cmp, none_ok))
    # lib.rs last
    per = ctx.need('C09.R2', 'GeneratedApp::persist', ctx.fb.body('pavexc', PX + 'generated_app::GeneratedApp::persist'))
    if per is not None:
        defs = Defs(per)
        from ..flow import slice_strs
        lib = []
        for bb, t in per.calls():
            if callee(t) == 'pavexc::persistence::AppWriter::persist_if_changed':
                pl = op_place(t['args'][1])
                sl, _ = backward_slice(per, pl['l'], defs) if pl else ([], set())
                if 'lib.rs' in slice_strs(ctx.fb, per, sl):
                    lib.append(bb)
        if ctx.need('C09.R2', 'write of lib.rs in persist', lib):
            after = per.reachable(per.succ(lib[0]))
            later = [callee(t).split('::')[-1] for bb, t in per.calls() if bb in after and 'mo' not in t and callee(t) not in
                     ('core::ops::try_trait::Try::branch', 'core::ops::try_trait::FromResidual::from_residual') and not (callee(t) or '').startswith('core::mem::drop')]
            tries = [bb for bb, t in per.calls() if bb in after and callee(t) == 'core::ops::try_trait::Try::branch']
            ctx.ob('C09.R2', 'main-source-written-last', len(tries) <= 1 and not later, per.loc(lib[0]),
                   'after lib.rs is written only its own `?` remains (fallible steps after it: %d, other calls: %s)' % (len(tries), later))


def r3_progress_flag(ctx):
    ctx.rule('C09.R3', 'P5/P6 on locals: in complex_borrow_check the strategy transitions extracted from the fixpoint are Park->Clone, '
             'Clone->{Park, Error}, Error->exit; every non-escalating transition (Clone->Park) is licensed by a boolean progress flag, and on '
             'every path from taking that transition back to the next test of the flag the flag is cleared — otherwise the machine can '
             'alternate Park/Clone forever and never reach Error.')
    fn = PX + 'analyses::call_graph::borrow_checker::complex::complex_borrow_check'
    b = ctx.need('C09.R3', 'complex_borrow_check', ctx.fb.body('pavexc', fn))
    if b is None:
        return
    # the strategy enum, declared inside the function or at module level; the transitions, written in the loop itself or in a method of the enum
    MOD = PX + 'analyses::call_graph::borrow_checker::complex::'
    enums = sorted({strip_generics(a['id']) for a in ctx.fb.adts('pavexc') if strip_generics(a['id']).startswith(MOD) and strip_generics(a['id']).endswith('::StrategyOnBlock')})
    enum = ctx.need('C09.R3', 'enum StrategyOnBlock', enums[0] if len(enums) == 1 else None)
    if enum is None:
        return
    from .compiler_common import family_bodies
    cands = [x for x in family_bodies(ctx, 'pavexc', [fn]) if not x.is_promoted]
    cands += [x for x in ctx.fb.bodies('pavexc') if not x.is_promoted and strip_generics(x.raw.get('impl_self') or '') == enum and x not in cands and not x.raw.get('exp')]
    caller = b
    withsw = [x for x in cands if list(enum_switches(x, enum))]
    # the body that holds the transition table: the one whose arms build values of the enum
    def builds(x):
        return any(st['rv']['k'] == 'agg' and strip_generics(st['rv'].get('adt', '')) == enum for _, _, st in x.all_assigns())
    tb = [x for x in withsw if builds(x)]
    b = tb[0] if tb else b
    sws = list(enum_switches(b, enum))
    ctx.floor('C09.R3', 'matches on the strategy', len([1 for x in withsw for _ in enum_switches(x, enum)]), 2)
    ORDER = {'Park': 0, 'Clone': 1, 'Error': 2}
    table = {}
    nonesc = []
    for sb, st in sws:
        arms = switch_arms(b, sb)
        for var, blocks in arms.items():
            for bb in blocks:
                for s in b.stmts(bb):
                    rv = s.get('rv')
                    if rv and rv['k'] == 'agg' and strip_generics(rv.get('adt', '')) == enum and s.get('lty') is None and not s['lhs'].get('p') \
                            and 'StrategyOnBlock' in b.locals[s['lhs']['l']]:
                        table.setdefault(var, set()).add(rv['var'])
                        if ORDER[rv['var']] < ORDER[var]:
                            nonesc.append((sb, var, rv['var'], bb, s))
    want = {'Park': {'Clone'}, 'Clone': {'Park', 'Error'}}
    ctx.ob('C09.R3', 'transition-table', table == want, b.loc(), 'strategy transitions: %s (documented: Park->Clone, Clone->Park|Error, Error->exit)'
           % {k: sorted(v) for k, v in table.items()})
    for sb, frm, to, bb, s in nonesc:
        # the bool that licenses it
        flags = set()
        for cb, cw in controlling_switches(b, bb):
            if 'enum' in cw:
                continue
            pl = op_place(cw['d'])
            if pl is None:
                continue
            sl, locs = backward_slice(b, pl['l'])
            flags |= {x for x in locs if b.locals[x] == 'bool' and b.var_name(x)}
        ctx.ob('C09.R3', 'licensed|%s->%s' % (frm, to), bool(flags), b.loc(bb, s), 'the non-escalating transition %s->%s is guarded by flag(s) %s'
               % (frm, to, sorted(b.var_name(x) for x in flags)))
        for fl in flags:
            if 1 <= fl <= b.raw['argc'] and b is not caller:
                # the flag is handed to the transition function: it lives with the caller (a local, or a field of the state struct). It is
                # "cleared" if the loop that drives the transitions assigns `false` to it somewhere
                name = b.var_name(fl)
                clears2 = []
                for x in cands:
                    for xb, j, st in x.all_assigns():
                        if st['rv']['k'] == 'use' and st['rv']['op'].get('int') == '0' and x.locals[st['lhs']['l']] != 'bool' or st['rv']['k'] != 'use':
                            pass
                        if st['rv']['k'] == 'use' and st['rv']['op'].get('int') == '0':
                            pp = st['lhs'].get('p') or []
                            named = (pp and pp[-1] == 'f:' + name) or (not pp and x.var_name(st['lhs']['l']) == name)
                            in_loop = xb in x.reachable(x.succ(xb))
                            if named and in_loop:
                                clears2.append(x.loc(xb, st))
                ctx.ob('C09.R3', 'flag-cleared|%s|%s->%s' % (name, frm, to), bool(clears2), b.loc(bb, s),
                       'after taking %s->%s the flag `%s` (kept by the caller of %s) is %s' % (frm, to, name, b.nid.split('::')[-1],
                           'reset inside the fixed-point loop at %s' % clears2[:2] if clears2 else
                           'NEVER reset inside the fixed-point loop: once set it licenses Clone->Park forever and Error is unreachable'))
                continue
            clears = [xb for xb, j, st in b.all_assigns() if st['lhs'] == {'l': fl} and st['rv']['k'] == 'use' and st['rv']['op'].get('int') == '0']
            # blocks that test the flag: switches on a copy of it
            tests = []
            fd = forward_derived(b, {fl})
            for tb in b.live_blocks():
                w = b.term(tb)
                if w and w['k'] == 'switch' and 'enum' not in w and op_place(w['d']) and op_place(w['d'])['l'] in fd:
                    tests.append(tb)
            reach = b.reachable(b.succ(bb), avoid=clears)
            # a reset in the very block that takes the transition is part of the transition
            stale = sorted(set(tests) & reach) if bb not in clears else []
            ctx.ob('C09.R3', 'flag-cleared|%s|%s->%s' % (b.var_name(fl), frm, to), not stale, b.loc(bb, s),
                   'after taking %s->%s the flag `%s` is %s' % (frm, to, b.var_name(fl),
                       'cleared before it is tested again' if not stale else
                       'NEVER cleared before the next test (blocks %s; clearing assignments: %s): once set it licenses Clone->Park forever and Error is unreachable' % (stale, clears)))


PANICKY = ('core::panicking::', 'core::option::unwrap_failed', 'core::option::expect_failed', 'core::result::unwrap_failed')
PANICKY_CALLS = {'core::option::Option::unwrap', 'core::option::Option::expect', 'core::result::Result::unwrap', 'core::result::Result::expect'}


def _lookup_partial(ctx, f, g, memo):
    """does pavexc function f (transitively, inside pavexc) contain a panicking lookup / unwrap / expect / explicit panic?"""
    if f in memo:
        return memo[f]
    memo[f] = None
    why = None
    for b in ctx.fb.bodies_of_item('pavexc', f):
        for bb, t in b.calls():
            c = callee(t) or ''
            if c in ('core::ops::index::Index::index', 'core::ops::index::IndexMut::index_mut') and any(x in t['aty'][0] for x in ('HashMap', 'BTreeMap', 'IndexMap', 'BiHashMap')):
                why = 'indexes a map with `[..]` at %s' % b.loc(bb, t)
            elif c in PANICKY_CALLS or c.startswith(PANICKY):
                why = '%s at %s' % (c.split('::')[-1], b.loc(bb, t))
            if why:
                break
        if why:
            break
    if why is None:
        for c in sorted(g.edges.get(f, ())):
            if c in g.items and c != f:
                w = _lookup_partial(ctx, c, g, memo)
                if w:
                    why = 'calls %s which %s' % (c.split('::')[-1], w)
                    break
    memo[f] = why
    return why


def r4_nothing_assumes_success_before_the_gate(ctx):
    ctx.rule('C09.R4', 'P2 in App::build: between a call that may push a diagnostic and the next has_errored gate, only passes that receive the '
             'diagnostic sink (and are therefore written for partially failed state) may run; a sink-less pavexc function that contains a '
             'panicking lookup (map `[..]`, unwrap, expect, panic!) assumes that everything before it succeeded and must come after the gate '
             '— otherwise a rejected component turns into a panic instead of the diagnostic that was already pushed.')
    g, mp = cg(ctx)
    b = ctx.need('C09.R4', 'App::build', ctx.fb.body('pavexc', APP_BUILD))
    if b is not None:
        from ..inline import inlined
        # with the private helpers of app.rs and a `checkpoint()`-style gate helper of the sink put back (same view as C08.R3)
        b = inlined(ctx.fb, b, also=lambda cb: cb.nid.startswith(SINK) and cb.nid != SINK + 'has_errored' and cb.raw.get('vis') != 'Public',
                    keep={SINK + 'has_errored'}, depth=3, only=lambda cb: cb.file == b.file or cb.nid.startswith(SINK))
    if b is None:
        return
    gates = [bb for bb, t in b.calls() if callee(t) == SINK + 'has_errored']
    def self_gating(fn):
        """fn returns Ok only after an error gate that follows its last diagnostic-pushing call"""
        fb_ = ctx.fb.body('pavexc', fn)
        if fb_ is None:
            return False
        oks = [x for x, j, st in fb_.all_assigns() if st['lhs'] == {'l': 0} and st['rv']['k'] == 'agg' and st['rv'].get('var') == 'Ok']
        fg = [x for x, t2 in fb_.calls() if callee(t2) in (SINK + 'has_errored', SINK + 'is_empty')]
        fp = [x for x, t2 in fb_.calls() if (callee(t2) in mp or callee_resolved(t2) in mp) and x not in fg]
        return bool(oks) and bool(fg) and not any(set(oks) & fb_.reachable(fb_.succ(x), avoid=fg) for x in fp)
    pushers = [(bb, t) for bb, t in b.calls() if (callee(t) in mp or callee_resolved(t) in mp) and callee(t) != SINK + 'has_errored'
               and not (t['dest'] and 'core::result::Result' in b.locals[t['dest']['l']] and self_gating(callee(t)))]
    ctx.floor('C09.R4', 'error gates in App::build', len(gates), 5)
    memo = {}
    n = 0
    for bb, t in b.calls():
        c = callee(t)
        if not c or c not in g.items or 'mo' in t:
            continue
        if any('DiagnosticSink' in a for a in t['aty']):
            continue
        n += 1
        # is there a may-push call P before it with no gate in between?
        exposed = [pb for pb, pt in pushers if pb != bb and b.dominates(pb, bb) and bb in b.reachable(b.succ(pb), avoid=gates)]
        why = _lookup_partial(ctx, c, g, memo) if exposed else None
        ctx.ob('C09.R4', 'pre-gate|%s' % c.replace(PX, ''), not (exposed and why), b.loc(bb, t),
               '%s (no sink argument) %s' % (c.split('::')[-2] + '::' + c.split('::')[-1],
                   'runs after the gate that follows every earlier diagnostic-pushing pass' if not exposed else
                   ('runs before the next gate but is total (no panicking lookup)' if not why else
                    'runs BEFORE the error gate that follows %s, and %s' % (callee(b.term(exposed[-1])).split('::')[-1], why))))
    ctx.floor('C09.R4', 'sink-less pavexc calls in App::build', n, 4)


BYTE_OFFSET_SOURCES = {'find', 'rfind', 'len', 'offset', 'char_indices', 'match_indices', 'rmatch_indices', 'byte_offset', 'start', 'end',
                       'floor_char_boundary', 'ceil_char_boundary', 'len_utf8', 'split_at', 'byte_index', 'span'}
CHAR_COUNT_SOURCES = {'chars', 'enumerate', 'count', 'position', 'rposition'}


def r5_str_slicing(ctx):
    ctx.rule('C09.R5', 'P7 provenance audit: every byte-range slicing of a str/String (`s[a..b]`, which panics off a char boundary) in the compiler '
             'crates takes its bounds from byte-offset sources (find/len/offset/char_indices/..). A bound that derives from a character '
             'counter (chars().enumerate(), count(), position()) — directly or through the struct field it was stored in — makes the '
             'compiler panic on non-ASCII input instead of reporting a diagnostic.')
    crates = ['pavexc', 'pavexc_attr_parser', 'rustdoc_ir', 'rustdoc_processor', 'rustdoc_resolver', 'pavexc_annotations']
    n = 0
    for cr in crates:
        try:
            bodies = [b for b in ctx.fb.bodies(cr) if not b.is_promoted]
        except Exception:
            continue
        # constructions of local structs, to follow an index that was stored in a field
        ctors = {}
        for b in bodies:
            for bb, j, st in b.all_assigns():
                rv = st['rv']
                if rv['k'] == 'agg' and rv.get('ak') == 'adt':
                    ctors.setdefault(strip_generics(rv['adt']), []).append((b, rv))
        for b in bodies:
            for bb, t in b.calls():
                c = callee(t) or ''
                if c not in ('core::ops::index::Index::index', 'core::ops::index::IndexMut::index_mut') or not t['aty']:
                    continue
                if t['aty'][0].replace('&mut ', '&') not in ('&str', '&alloc::string::String') or 'Range' not in t['aty'][1]:
                    continue
                n += 1
                defs = Defs(b)
                pl = op_place(t['args'][1])
                srcs = set()
                if pl is not None:
                    sl, _ = backward_slice(b, pl['l'], defs)
                    srcs |= {x.split('::')[-1] for x, _, _ in slice_calls(sl)}
                    # bounds read from struct fields: look at how those fields are filled
                    for _, _, node in sl:
                        if 'rv' not in node:
                            continue
                        ops, pls = rv_operands(node['rv'])
                        for q in pls + [op_place(o) for o in ops if op_place(o) is not None]:
                            for el, owner in zip([e for e in q.get('p', []) if e.startswith('f:')], q.get('fo', [])):
                                if not strip_generics(owner).startswith(cr + '::'):
                                    continue   # only the crate's own structs: core::ops::Range{start,end} is built everywhere
                                for cb, crv in ctors.get(strip_generics(owner), []):
                                    if el[2:] in crv.get('fields', []):
                                        fpl = op_place(crv['ops'][crv['fields'].index(el[2:])])
                                        if fpl is not None:
                                            fsl, _ = backward_slice(cb, fpl['l'], Defs(cb))
                                            srcs |= {x.split('::')[-1] for x, _, _ in slice_calls(fsl)}
                chars = sorted(srcs & CHAR_COUNT_SOURCES)
                bytes_ = sorted(srcs & BYTE_OFFSET_SOURCES)
                bad = bool(chars) and 'char_indices' not in srcs
                ctx.ob('C09.R5', 'slice-bounds|%s' % b.nid.replace(PX, '').replace('pavexc::', ''), not bad, b.loc(bb, t),
                       'bounds of the %s slicing derive from %s%s' % (t['aty'][1].split('::')[-1], bytes_ or sorted(srcs)[:6] or 'parameters',
                                                                    '' if not bad else ' and from the CHARACTER counters %s: not a byte offset' % chars))
    ctx.floor('C09.R5', 'byte-range slicings of strings in the compiler crates', n, 4)


def r6_inclusive_spans(ctx):
    ctx.rule('C09.R6', 'P7 arithmetic on inclusive spans: PathParameterDetails{start,end} and the domain ParsedParameter{start_at,end_at} record the '
             'positions of the opening and of the closing brace, both included. Wherever the compiler computes `end - start` of such a span the '
             'difference is incremented by one before it is used as a length (an off-by-one leaves a stray brace in the derived route pattern, '
             'which matchit rejects with an error the caller treats as unreachable).')
    n = 0
    for b in ctx.fb.bodies('pavexc'):
        if b.is_promoted:
            continue
        defs = Defs(b)

        def field_of(o):
            pl = op_place(o)
            if pl is None:
                return None
            if pl.get('p'):
                return pl['p'][-1]
            for _, _, nd in defs.full.get(pl['l'], []):
                rv = nd.get('rv')
                if rv and rv['k'] in ('use', 'cfd') and op_place(rv.get('op', {})) is not None and op_place(rv['op']).get('p'):
                    return op_place(rv['op'])['p'][-1]
            return None
        for bb, j, st in b.all_assigns():
            rv = st['rv']
            if rv['k'] != 'bin' or not rv['bop'].startswith('Sub'):
                continue
            fa, fb_ = field_of(rv['a']), field_of(rv['b'])
            if (fa, fb_) not in (('f:end', 'f:start'), ('f:end_at', 'f:start_at')):
                continue
            n += 1
            d = forward_derived(b, {st['lhs']['l']}, defs, through_calls=False)
            plus_one = False
            for b2, j2, s2 in b.all_assigns():
                r2 = s2['rv']
                if r2['k'] == 'bin' and r2['bop'].startswith('Add'):
                    ops = [r2['a'], r2['b']]
                    if any(isinstance(o, dict) and o.get('int') == '1' for o in ops) and any(op_place(o) is not None and op_place(o)['l'] in d for o in ops):
                        plus_one = True
            ctx.ob('C09.R6', 'span-length|%s' % b.nid.replace(PX, '').replace('pavexc::', ''), plus_one, b.loc(bb, st),
                   '`%s - %s` of an inclusive span is %sincremented by one before use' % (fa[2:], fb_[2:], '' if plus_one else 'NOT '))
    ctx.floor('C09.R6', 'length computations over inclusive spans', n, 2)


# panic sites in the code that turns a problem into a diagnostic (pavexc::diagnostic::*), confirmed by reading: (function, kind) -> (count, why it cannot fire)
REVIEWED_DIAGNOSTIC_PANIC_SITES = {
    ('callable_definition::CallableDefSource::compute_from_item', 'assert:Overflow'): (1, 'span arithmetic on offsets rustdoc reported for this very file'),
    ('callable_definition::CallableDefSource::compute_from_item', 'index:String'): (1, 'slice of the source by the byte offsets computed from the rustdoc span (C09.R5 decides the unit)'),
    ('miette::convert_proc_macro_span', 'assert:Overflow'): (3, 'line/column arithmetic of proc-macro spans (C09.R6 decides the inclusive end)'),
    ('miette::convert_rustdoc_span', 'assert:Overflow'): (1, 'line/column arithmetic of rustdoc spans (C09.R6)'),
    ('registration::Registration::annotated_item', 'panic'): (1, 'stated belief: called only for registrations that come from an annotation'),
    ('registration::Registration::attribute', 'expect'): (1, 'stated belief: same precondition'),
    ('registration_locations::blueprint_registration_arg_span', 'assert:Overflow'): (2, '`len - 1` / `len - 2` under `if segments.len() >= 2`'),
    ('registration_locations::blueprint_registration_arg_span', 'index:Punctuated'): (2, 'the two path segments indexed under `if segments.len() >= 2`'),
}


def _is_increment(b, bb):
    """the Overflow assertion at `bb` checks `x + 1` (AddWithOverflow with the constant 1) on an unsigned integer"""
    t = b.term(bb)
    cl = op_place(t.get('cond') or {})
    for st in b.stmts(bb):
        rv = st.get('rv')
        if rv and rv['k'] == 'bin' and rv.get('bop') in ('AddWithOverflow', 'Add') and any(o.get('int') == '1' for o in (rv['a'], rv['b']) if isinstance(o, dict)):
            return True
    return False


def _panic_site_audit(ctx, RID, D, TABLE, what, floor_bodies, floor_sites):
    PAN = ('core::panicking::', 'std::rt::begin_panic', 'core::option::unwrap_failed', 'core::result::unwrap_failed', 'core::option::expect_failed')
    UNW = {'core::option::Option::unwrap', 'core::option::Option::expect', 'core::result::Result::unwrap', 'core::result::Result::expect',
           'core::result::Result::unwrap_err', 'core::result::Result::expect_err'}
    found, where, scanned, auto = {}, {}, 0, {}
    for b in ctx.fb.bodies('pavexc'):
        if b.is_promoted or not b.nid.startswith(D):
            continue
        scanned += 1
        fn = b.nroot[len(D):] or D.rstrip(':').split('::')[-1]
        for bb, t in b.calls():
            c = callee(t) or ''
            if (t.get('mo') or '') in ('debug_assert', 'debug_assert_eq', 'debug_assert_ne'):
                continue
            kind = None
            if c.startswith(PAN):
                kind = 'panic'
            elif c in UNW:
                kind = c.split('::')[-1]
                if t['aty'] and ('PoisonError' in t['aty'][0] or 'MutexGuard' in t['aty'][0] or 'RwLockReadGuard' in t['aty'][0] or 'RwLockWriteGuard' in t['aty'][0]):
                    auto['lock'] = auto.get('lock', 0) + 1        # `.lock().expect(..)`: fires on mutex poisoning only, wherever it is written
                    continue
            elif c in ('core::ops::index::Index::index', 'core::ops::index::IndexMut::index_mut'):
                ty = strip_generics((t['aty'][0] if t['aty'] else '').replace('&mut ', '').lstrip('&'))
                kind = 'index:' + ty.split('::')[-1].split('<')[0]
            if kind:
                found[(fn, kind)] = found.get((fn, kind), 0) + 1
                where.setdefault((fn, kind), b.loc(bb, t))
        for bb in b.live_blocks():
            t = b.term(bb)
            if t and t['k'] == 'assert' and (t.get('mo') or '') not in ('debug_assert', 'debug_assert_eq', 'debug_assert_ne'):
                kind = 'assert:' + str(t.get('msg')).split(' ')[0].split('{')[0]
                if kind == 'assert:Overflow' and _is_increment(b, bb):
                    auto['increment'] = auto.get('increment', 0) + 1    # `n += 1` on a usize counter: one step per diagnostic / item, never 2^64 of them
                    continue
                found[(fn, kind)] = found.get((fn, kind), 0) + 1
                where.setdefault((fn, kind), b.loc(bb, t))
    for key, nsites in sorted(found.items()):
        allowed = TABLE.get(key, (0, None))
        ok = nsites <= allowed[0]
        ctx.ob(RID, what + '-panic-site|%s|%s' % key, ok, where[key],
               '%d site(s) of kind %s in %s; reviewed: %d%s' % (nsites, key[1], key[0], allowed[0], (' (%s)' % allowed[1]) if ok else
                                                              ' — a panic site that nobody has argued away, on a path that has to end in a diagnostic'))
    ctx.floor(RID, 'bodies of %s scanned' % D, scanned, floor_bodies)
    ctx.count(what + '_panic_sites_discharged_by_class', sum(auto.values()))
    ctx.floor(RID, 'panic sites found in %s (positive control)' % D, sum(found.values()) + sum(auto.values()), floor_sites)


def r7_diagnostic_code_does_not_panic(ctx):
    ctx.rule('C09.R7', 'P3 audit with a reviewed table: the functions of pavexc::diagnostic (source spans, labels, registration locations, the sink) run exactly when '
             'pavexc has something to report about the user\'s own source, whose shape pavexc does not control (a registration made through a '
             '`#[track_caller]` helper, a macro, a call with fewer arguments than expected). Every panic site there — panic!/unwrap/expect, `[]` on a '
             'collection or a str, an arithmetic / bounds assertion; `debug_assert!`s excepted — is one of the reviewed sites, each with the reason it '
             'cannot fire. A new one turns "exits non-zero with a diagnostic" into a crash for some way of writing the blueprint.')
    _panic_site_audit(ctx, 'C09.R7', 'pavexc::diagnostic::', REVIEWED_DIAGNOSTIC_PANIC_SITES, 'diagnostic', 60, 8)


REVIEWED_CYCLE_DETECTOR_PANIC_SITES = {
    # (function, kind): (count, why it cannot fire) - confirmed by reading the pinned tree
    ('DependencyGraph::build', 'index:HashMap'): (1, '`node2index[&node]` in the else-branch of `if let Entry::Vacant(..) = node2index.entry(node)`: the key is present'),
    ('DependencyGraph::build', 'index:StableGraph'): (3, 'the graph is indexed with indices this very loop got from `add_node`'),
    ('DependencyGraph::build', 'panic'): (1, 'stated belief: error observers are never registered as somebody\'s input'),
    ('DependencyGraph::build', 'unwrap'): (1, '`output_type()` is None for error observers only, excluded by the assertion one line above'),
    ('cycle_error', 'assert:Overflow'): (1, '`i - 1` in the else-branch of `if i == 0`'),
    ('cycle_error', 'index:Vec'): (1, '`cycle_components[i - 1]` with i from `enumerate()` over the same vector'),
    ('cycle_error', 'index:StableGraph'): (1, 'node indices of a cycle that was found in this graph'),
    ('cycle_error', 'panic'): (5, 'unreachable!(): input nodes have no incoming edge, MatchResult nodes were filtered out above, prebuilt types have no dependencies'),
    ('cycle_error', 'unwrap'): (5, 'writeln! into a String; `last()` inside a loop over the same non-empty vector; `output_type()` of compute components'),
    ('find_cycles::dfs', 'index:Vec'): (1, '`stack[cycle_start..]` with cycle_start = `stack.iter().position(..)`'),
}


def r14_cycle_detection_does_not_panic(ctx):
    ctx.rule('C09.R14', 'P3 audit with a reviewed table (the form of C09.R7, on another module): `DependencyGraph` is built from the user\'s constructors and searched for '
             'cycles before any call graph exists; a component that (transitively, or directly: `fn a(&A) -> A`) depends on its own output must end in the '
             '"dependency cycle" diagnostic. Every panic site of `analyses::call_graph::dependency_graph` — unwrap / expect, `[]` on a map or a graph, an '
             'arithmetic assertion — is one of the reviewed sites; a new one (a parent-map lookup that a self-loop never filled) turns that diagnostic into a crash.')
    _panic_site_audit(ctx, 'C09.R14', 'pavexc::compiler::analyses::call_graph::dependency_graph::', REVIEWED_CYCLE_DETECTOR_PANIC_SITES, 'cycle-detector', 4, 1)


R8_TOLERATED = {
    # (function, callee): reason
    ('traits::implements_trait', 'CrateCollection::get_canonical_path_by_local_type_id'):
        'a trait whose path cannot be resolved is "not the trait we are looking for": the answer is `false` and the CALLER reports the missing trait implementation',
    ('traits::is_equivalent', 'CrateCollection::get_canonical_path_by_local_type_id'):
        'a type whose path cannot be resolved is "not equivalent": the answer is `false` and the caller reports the missing trait implementation',
    ('traits::is_equivalent', 'CrateCollection::get_canonical_path_by_global_type_id'):
        'as above',
}


def _err_handling(ctx, b, bb, t, must):
    """How the Err of the Result produced by call `t` (in block bb of body b) is handled -> (class, loc)
    P propagated, X unwrapped (a panic, not a silent failure), D reported (every path from the Err edge passes a must-push call),
    C handed to a combinator (cannot be followed), S swallowed: some path from the Err edge goes on without reporting"""
    d = t['dest']
    if d.get('p'):
        return 'C', b.loc(bb, t)
    defs = Defs(b)
    vals = {d['l']}
    grew = True
    while grew:
        grew = False
        for xb, j, st in b.all_assigns():
            rv = st['rv']
            if st['lhs'].get('p') or st['lhs']['l'] in vals or rv['k'] not in ('use', 'ref'):
                continue
            q = rv.get('pl') or op_place(rv.get('op'))
            if q is not None and q['l'] in vals and all(e == '*' for e in q.get('p', [])):
                vals.add(st['lhs']['l'])
                grew = True
    for cb, ct in b.calls():
        if cb == bb:
            continue
        for a in ct['args']:
            pl = op_place(a)
            if pl is not None and pl['l'] in vals and not pl.get('p'):
                name = (callee(ct) or '').split('::')[-1]
                if callee(ct) == 'core::ops::try_trait::Try::branch':
                    return 'P', b.loc(cb, ct)
                if name in ('map_err', 'context', 'with_context', 'into_diagnostic', 'wrap_err') and not ct['dest'].get('p'):
                    # the Result travels on with a converted error: follow it
                    sub = dict(t)
                    sub['dest'] = ct['dest']
                    return _err_handling(ctx, b, cb, sub, must)
                if name in ('unwrap', 'expect', 'unwrap_or_else', 'expect_err') and name in ('unwrap', 'expect'):
                    return 'X', b.loc(cb, ct)
                return 'C', b.loc(cb, ct)
    # returned as it is
    for xb, j, st in b.all_assigns():
        if st['lhs'] == {'l': 0} and st['rv']['k'] == 'use' and op_place(st['rv']['op']) is not None and op_place(st['rv']['op'])['l'] in vals:
            return 'P', b.loc(xb, st)
    if d['l'] == 0:
        return 'P', b.loc(bb, t)
    for sb in b.live_blocks():
        sw = b.term(sb)
        if not sw or sw['k'] != 'switch' or 'enum' not in sw or strip_generics(sw['enum']) != 'core::result::Result':
            continue
        src = sw.get('src') or {}
        if src.get('l') not in vals or [e for e in src.get('p', []) if e != '*']:
            continue
        edges = switch_edges(sw)
        err_t = [edges['Err']] if 'Err' in edges else [s2 for s2 in b.succ(sb) if s2 != edges.get('Ok')]
        reporting = set()
        for cb, ct in b.calls():
            if callee_resolved(ct) in must or callee(ct) in must:
                reporting.add(cb)
        # constructing an Err for the caller counts as propagation
        for xb, j, st in b.all_assigns():
            if st['rv']['k'] == 'agg' and st['rv'].get('var') == 'Err' and strip_generics(st['rv'].get('adt', '')) == 'core::result::Result':
                reporting.add(xb)
        for cb, ct in b.calls():
            if (callee(ct) or '').endswith('FromResidual::from_residual'):
                reporting.add(cb)
        rets = set(b.return_blocks())
        # a path that leaves the Err arm without reporting: reaches a return, or re-enters the block of the call (next loop iteration)
        free = b.reachable(err_t, avoid=reporting)
        if free & (rets | {bb}):
            return 'S', b.loc(sb)
        return 'D', b.loc(sb)
    return 'C', b.loc(bb, t)


def r8_documentation_errors_are_reported(ctx):
    ctx.rule('C09.R8', 'P1 error discipline at a layer boundary: every call from pavexc into rustdoc_processor that can fail with a real error '
             '(`Result<_, E>`, E != ()) has its Err propagated (`?` / returned), turned into a panic (unwrap / expect: loud, and audited '
             'elsewhere) or REPORTED: every path from the Err edge passes a call that pushes a diagnostic on all of its paths before the '
             'function returns or moves on to the next item. Code further down (`annotations::coordinates`: "a diagnostic has already been '
             'emitted") carries on after such a failure precisely because the sink is no longer empty and the next gate will stop the run; an '
             'error that is only logged leaves the sink empty, the gates open, and the first `unwrap` on missing crate data becomes the verdict.')
    must = must_push(ctx)
    n, cls = 0, {}
    for b in ctx.fb.bodies('pavexc'):
        if b.is_promoted:
            continue
        for bb, t in b.calls():
            c = callee(t) or ''
            if not c.startswith('rustdoc_processor::'):
                continue
            d = t['dest']
            ty = b.locals[d['l']] if not d.get('p') else ''
            if not ty.startswith('core::result::Result<') or ty.endswith(', ()>'):
                continue
            n += 1
            k, loc = _err_handling(ctx, b, bb, t, must)
            fn = b.nroot.replace(PX, '').replace('pavexc::', '')
            short = '::'.join(c.split('::')[-2:])
            cls[k] = cls.get(k, 0) + 1
            tol = R8_TOLERATED.get((fn, short))
            ok = k in ('P', 'X', 'D') or (tol is not None)
            what = {'P': 'propagated', 'X': 'unwrapped (panics loudly)', 'D': 'reported: every path from the Err edge pushes a diagnostic',
                    'C': 'handed to a combinator / pattern the rule cannot follow', 'S': 'SWALLOWED: a path from the Err edge goes on without a diagnostic'}[k]
            ctx.ob('C09.R8', 'doc-error|%s|%s' % (fn, short), ok, loc, '%s -> %s: %s%s' % (fn, short, what, (' — reviewed: ' + tol) if tol and k in ('C', 'S') else ''))
    ctx.count('doc_layer_fallible_calls', n)
    ctx.floor('C09.R8', 'fallible calls into rustdoc_processor', n, 12)
    ctx.floor('C09.R8', 'positive control: Err edges that are reported through the sink', cls.get('D', 0), 1)


def taint_reaches(b, sources, sanitizers, sinks):
    """flow-insensitive taint over one body: values derived from the results of `sources` (call nodes) through copies, references, calls
    (result tainted when an argument is; a `&mut` receiver becomes tainted when another argument is) — except through `sanitizers`
    (call nodes whose result is clean). -> the sink calls (bb, t) that receive a tainted argument."""
    defs = Defs(b)
    tainted = set()
    for bb, t in sources:
        if not t['dest'].get('p'):
            tainted.add(t['dest']['l'])
    san = {id(t) for _, t in sanitizers}
    changed = True
    while changed:
        changed = False
        for xb, j, st in b.all_assigns():
            l = st['lhs']['l']
            if l in tainted:
                continue
            ops, pls = rv_operands(st['rv'])
            reads = [op_place(o)['l'] for o in ops if op_place(o) is not None] + [p['l'] for p in pls]
            if any(r in tainted for r in reads):
                tainted.add(l)
                changed = True
        for cb, ct in b.calls():
            if id(ct) in san:
                continue
            args = [op_place(a) for a in ct['args']]
            if not any(a is not None and a['l'] in tainted for a in args):
                continue
            d = ct['dest']['l']
            if d not in tainted:
                tainted.add(d)
                changed = True
            # `x.extend(tainted)`: the receiver is a `&mut` to x
            a0 = args[0] if args else None
            if a0 is not None and len(args) > 1 and b.locals[a0['l']].startswith('&mut '):
                for _, _, node in defs.full.get(a0['l'], []):
                    rv = node.get('rv')
                    if rv and rv['k'] == 'ref' and rv['pl']['l'] not in tainted:
                        tainted.add(rv['pl']['l'])
                        changed = True
    out = []
    for cb, ct in sinks:
        if any(op_place(a) is not None and op_place(a)['l'] in tainted for a in ct['args'][1:] or ct['args']):
            out.append((cb, ct))
    return out


def r9_persisted_ids_are_checked_against_the_graph(ctx):
    ctx.rule('C09.R9', 'P7 taint: `CrateCollection::bootstrap` merges the package ids it was asked for with the ids recorded in the on-disk access log '
             'of the PREVIOUS run. The log is persisted state the current package graph knows nothing about (`cargo update`, a moved path '
             'dependency); `RustdocCacheKey::new` unwraps `package_graph.metadata(id)`. So every id that derives from `get_access_log` passes '
             'the filter that asks the package graph (`filter(|id| package_graph.metadata(id).is_ok())`, or a `retain` doing the same) before it '
             'reaches `compute_batch`: otherwise the second `pavexc generate` after a lockfile change crashes with no diagnostic.')
    bodies = [b for b in ctx.fb.bodies('rustdoc_processor') if not b.is_promoted and b.nid == b.nroot and b.nid.endswith('collection::CrateCollection::bootstrap')]
    if not ctx.need('C09.R9', 'rustdoc_processor CrateCollection::bootstrap', bodies):
        return
    b = bodies[0]
    from ..inline import inlined, closures_of
    b = inlined(ctx.fb, b, crate='rustdoc_processor')
    src = [(bb, t) for bb, t in b.calls() if (callee(t) or '').endswith('::get_access_log')]
    sinks = [(bb, t) for bb, t in b.calls() if (callee(t) or '').endswith('::compute_batch')]
    if not ctx.need('C09.R9', 'get_access_log call in bootstrap', src) or not ctx.need('C09.R9', 'compute_batch call in bootstrap', sinks):
        return
    # a sanitizer: filter / retain whose closure asks the package graph
    san = []
    for bb, t in b.calls():
        if (callee(t) or '').split('::')[-1] not in ('filter', 'retain', 'filter_map'):
            continue
        asks = False
        for cl in ctx.fb.bodies_of_item('rustdoc_processor', b.nroot):
            if cl.nid != cl.nroot and any((callee(x) or '').endswith('PackageGraph::metadata') for _, x in cl.calls()):
                if any(cl.nid.split('::')[-1] in (a.get('closure') or '') or True for a in t['args']):
                    asks = True
        if asks:
            san.append((bb, t))
    hit = taint_reaches(b, src, san, sinks)
    ctx.ob('C09.R9', 'access-log-ids-filtered', bool(san) and not hit, b.loc(*(hit[0] if hit else sinks[0])),
           'ids read from the persisted access log reach compute_batch only through the package-graph filter: %s (filters found: %d)' % (bool(san) and not hit, len(san)))


# checked subtractions in the passes that run on the blueprint as the user wrote it, confirmed by reading: (function) -> (count, why it cannot underflow)
REVIEWED_EARLY_SUBTRACTIONS = {
    'domain::validate': (1, '`total_length -= 1` after a loop that added `len + 1` for at least one label (an empty guard has one, empty, label)'),
    'domain::validate::ParsedParameter::raw': (1, '`end_at - start_at`: positions of the closing and of the opening brace of one parameter, recorded in that order'),
    '<domain::InvalidDomainConstraint as core::fmt::Display>::fmt': (1, '`n - 1` under `n > 1 &&` (short-circuit, same expression)'),
    'user_components::router::PathRouter::assign_fallbacks': (2, '`n_chars - 1` with at least one parsed parameter (two braces) in the string; `end - start` of the braces of one parameter (C09.R6 decides the `+ 1`)'),
}


def r10_early_passes_do_not_underflow(ctx):
    from ..arith import checked_sub_in, sub_is_guarded
    ctx.rule('C09.R10', 'P3 audit with a reviewed table: the passes that run on the blueprint exactly as the user wrote it, before anything has been checked '
             '(user_components::*, domain, route_path), do arithmetic on counts the user controls (how many `super`s an import has, how long a '
             'label is). Every checked subtraction there is made safe by a dominating comparison of the same two values (pvx.arith), or is one of '
             'the reviewed sites with the reason it cannot underflow: an underflow is a panic in a debug build and a wrapped count in a release '
             'build — `from![super::super::x]` at the crate root took `usize::MAX` leading segments.')
    found = {}
    where = {}
    n = 0
    for b in ctx.fb.bodies('pavexc'):
        if b.is_promoted:
            continue
        if '::user_components::' not in b.nid and '::analyses::domain' not in b.nid and '::analyses::route_path' not in b.nid:
            continue
        defs = None
        for bb in sorted(b.live_blocks()):
            if checked_sub_in(b, bb) is None or (b.term(bb).get('mo') or '') in ('debug_assert', 'debug_assert_eq', 'debug_assert_ne'):
                continue
            n += 1
            defs = defs or Defs(b)
            if sub_is_guarded(b, defs, bb):
                continue
            fn = b.nid.replace(PX + 'analyses::', '').replace(PX, '')
            if fn not in REVIEWED_EARLY_SUBTRACTIONS:
                # a private helper that a reviewed function was split into carries that function's review
                from .compiler_common import family_items
                for r in REVIEWED_EARLY_SUBTRACTIONS:
                    full = [x.nroot for x in ctx.fb.bodies('pavexc') if not x.is_promoted and x.nid == x.nroot and
                            x.nid.replace(PX + 'analyses::', '').replace(PX, '') == r][:1]
                    if full and b.nroot in family_items(ctx, 'pavexc', full):
                        fn = r
                        break
            found[fn] = found.get(fn, 0) + 1
            where.setdefault(fn, b.loc(bb))
    for fn, cnt in sorted(found.items()):
        rev = REVIEWED_EARLY_SUBTRACTIONS.get(fn)
        ok = rev is not None and cnt <= rev[0]
        ctx.ob('C09.R10', 'unguarded-subtraction|%s' % fn, ok, where[fn],
               '%d checked subtraction(s) without a dominating comparison in %s: %s' % (cnt, fn, ('reviewed (%d) — %s' % rev) if rev else
               'NOT REVIEWED: the difference of two user-controlled counts can underflow'))
    ctx.floor('C09.R10', 'checked subtractions in the early passes', n, 4)


def r11_no_import_processing_without_docs(ctx):
    ctx.rule('C09.R11', 'P1 (sibling of C09.R4, one level down): `register_imported_components` looks every imported package up in the crate collection and '
             'treats a miss as `unreachable!` — "the JSON documentation has already been generated at this point". That belief is established by '
             '`CrateCollection::bootstrap` in `UserComponentDb::build` (through `precompute_crate_docs`): when bootstrap fails, the failure is '
             'reported AND the build stops there — in the function that calls bootstrap every path from the Err edge returns an `Err`, and '
             '`UserComponentDb::build` propagates that Err (`?`) before it calls `register_imported_components`. Otherwise a blueprint with any '
             'import, on a machine whose docs toolchain cannot emit rustdoc JSON, ends in a panic with nothing printed.')
    BUILD = PX + 'analyses::user_components::db::UserComponentDb::build'
    build = ctx.fb.body('pavexc', BUILD)
    if not ctx.need('C09.R11', 'user_components::db::UserComponentDb::build', build):
        return
    regs = [bb for bb, t in build.calls() if strip_generics(callee(t) or '').endswith('annotations::register_imported_components')]
    if not ctx.need('C09.R11', 'register_imported_components called from UserComponentDb::build', regs):
        return
    sites = []
    for b in ctx.fb.bodies('pavexc'):
        if b.is_promoted or '::user_components::db::' not in b.nid:
            continue
        for bb, t in b.calls():
            if strip_generics(callee(t) or '').endswith('collection::CrateCollection::bootstrap'):
                sites.append((b, bb, t))
    if not ctx.need('C09.R11', 'CrateCollection::bootstrap called from user_components::db', sites):
        return
    must = must_push(ctx)
    for b, bb, t in sites:
        d = t['dest']['l']
        err_t = None
        for sb in b.reachable(b.succ(bb)):
            w = b.term(sb)
            if w and w['k'] == 'switch' and 'enum' in w and strip_generics(w['enum']) == 'core::result::Result' and w['src']['l'] == d and not [e for e in w['src'].get('p', []) if e != '*']:
                e = switch_edges(w)
                err_t = [e['Err']] if 'Err' in e else [x for x in b.succ(sb) if x != e.get('Ok')]
                break
        fn = b.nroot.replace(PX + 'analyses::', '')
        if err_t is None:
            k, loc = _err_handling(ctx, b, bb, t, must)
            ctx.ob('C09.R11', 'docs-failure-stops-the-build|%s' % fn, k == 'P', loc, 'the result of bootstrap is %s' % ('propagated' if k == 'P' else 'not matched on in a way the rule can follow'))
            continue
        if b.nroot == BUILD:
            hit = b.reachable(err_t) & set(regs)
            ctx.ob('C09.R11', 'docs-failure-stops-the-build|%s' % fn, not hit, b.loc(sorted(hit)[0]) if hit else b.loc(bb, t),
                   'from the Err edge of bootstrap, register_imported_components is unreachable: %s' % (not hit))
            continue
        # (1) the helper returns Err on every path from the Err edge
        errs = {xb for xb, j, st in b.all_assigns() if st['lhs'] == {'l': 0} and st['rv']['k'] == 'agg' and st['rv'].get('var') == 'Err'}
        returns_unit = b.locals[0] == '()'
        free = b.reachable(err_t, avoid=errs) & set(b.return_blocks())
        ok1 = not returns_unit and bool(errs) and not free
        # (2) build propagates the helper's Err before it registers the imported components
        ok2, where = False, b.loc(bb, t)
        for cb, ct in build.calls():
            if strip_generics(callee(ct) or '') == b.nroot:
                k, loc = _err_handling(ctx, build, cb, ct, must)
                where = loc
                ok2 = k == 'P' and all(build.dominates(cb, r) for r in regs)
        ctx.ob('C09.R11', 'docs-failure-stops-the-build|%s' % fn, ok1 and ok2, where,
               '%s returns Err on every path from the Err edge of bootstrap: %s; UserComponentDb::build propagates it before register_imported_components: %s' % (fn.split('::')[-1], ok1, ok2))


REVIEWED_INSERT_ERROR_PANICS = {
    # (function): reason the non-Conflict variants cannot occur
    'user_components::router::DomainRouter::detect_domain_conflicts':
        'the pattern comes from DomainGuard::matchit_pattern of a guard that DomainGuard::new validated (labels, one well-formed parameter per label): '
        'it is a valid matchit route by construction (C20.R1/R3 decide the validation side)',
}


def r12_router_errors_are_not_assumed_away(ctx):
    ctx.rule('C09.R12', 'P3 contradiction rule: pavexc inserts patterns into `matchit` routers in several places and reports `InsertError::Conflict`. The other '
             'variants (InvalidParam, InvalidParamSegment, InvalidCatchAll ..) depend on the TEXT of the pattern; wherever the pattern is built from '
             'what the user wrote (a route path, a prefix with a synthesised `{*catch_all}`), a branch that handles `Conflict` and declares the rest '
             '`unreachable!` is a crash for some prefix: `/a/{id}_x` is a valid prefix, `/a/{id}_x{*catch_all}` is not a valid route. Every panic '
             'reachable only through the non-Conflict edge of a match on `InsertError` is in the reviewed table.')
    n = 0
    PAN = ('core::panicking::', 'std::rt::begin_panic')
    for b in ctx.fb.bodies('pavexc'):
        if b.is_promoted:
            continue
        for sb in sorted(b.live_blocks()):
            w = b.term(sb)
            if not w or w['k'] != 'switch' or 'enum' not in w or not strip_generics(w['enum']).endswith('InsertError'):
                continue
            e = switch_edges(w)
            if 'Conflict' not in e:
                continue
            n += 1
            others = {tg for v, tg in e.items() if v != 'Conflict'} | ({w['else']} if w.get('else') is not None and w['else'] != e['Conflict'] else set())
            excl = set()
            for tg in others:
                excl |= b.reachable(tg, avoid=[sb])
            excl -= b.reachable(e['Conflict'], avoid=[sb])
            pans = [(xb, t) for xb, t in b.calls() if xb in excl and (callee(t) or '').startswith(PAN)]
            fn = b.nroot.replace(PX + 'analyses::', '').replace(PX, '')
            rev = REVIEWED_INSERT_ERROR_PANICS.get(fn)
            ctx.ob('C09.R12', 'insert-error-not-assumed-away|%s' % fn, not pans or rev is not None, b.loc(pans[0][0], pans[0][1]) if pans else b.loc(sb),
                   '%s matches on matchit::InsertError; panics on the non-Conflict side: %d%s' % (fn, len(pans), (' — reviewed: ' + rev) if pans and rev else ''))
    ctx.floor('C09.R12', 'matches on matchit::InsertError that single out Conflict', n, 2)


def r13_every_module_entered_is_on_the_history(ctx):
    ctx.rule('C09.R13', 'P2/P7 termination argument of a recursive walk: `index_local_types` walks the module tree of every crate pavexc loads and follows '
             '`pub use` re-exports; what stops it on a re-export cycle is the navigation history (the set of modules on the current path). The guard '
             'works only if every module that is walked INTO puts itself on the history its children receive: for every recursive call of '
             '`index_local_types`, the history argument derives from a set on which `insert` was called on the way to that call (it dominates the '
             'call) — never from the function\'s own history parameter unchanged. A re-exported module that is only looked up (`contains`) and '
             'not recorded makes a cycle that runs through re-exports invisible: the walk recurses until the stack overflows, no diagnostic.')
    root = None
    for b in ctx.fb.bodies('rustdoc_processor'):
        if not b.is_promoted and b.nid == b.nroot and b.nid.endswith('indexing::index_local_types'):
            root = b
    if not ctx.need('C09.R13', 'rustdoc_processor::indexing::index_local_types', root):
        return
    b = root
    defs = Defs(b)
    inserts = []     # (bb, root set local)
    def set_root(pl):
        seen = set()
        while pl is not None and pl['l'] not in seen:
            seen.add(pl['l'])
            ds = defs.full.get(pl['l'], [])
            if len(ds) != 1:
                return pl['l']
            nd = ds[0][2]
            if nd.get('k') == 'call':
                if (callee(nd) or '').split('::')[-1] in ('clone', 'deref', 'deref_mut', 'borrow', 'as_ref') and nd['args']:
                    return ('clone-of', set_root(op_place(nd['args'][0]))) if (callee(nd) or '').endswith('::clone') else set_root(op_place(nd['args'][0]))
                return pl['l']
            rv = nd.get('rv')
            if rv and rv['k'] == 'use':
                pl = op_place(rv['op'])
            elif rv and rv['k'] in ('ref', 'cfd'):
                pl = rv['pl']
            else:
                return pl['l']
        return pl['l'] if pl else None
    for bb, t in b.calls():
        if (callee(t) or '').split('::')[-1] == 'insert' and t.get('aty') and 'IndexSet<rustdoc_types::Id' in t['aty'][0]:
            r = set_root(op_place(t['args'][0]))
            inserts.append((bb, r))
    n = 0
    for bb, t in b.calls():
        if strip_generics(callee(t) or '') != b.nroot:
            continue
        hist = [a for a, ty in zip(t['args'], t.get('aty', [])) if ty and 'IndexSet<rustdoc_types::Id' in ty]
        if not hist:
            continue
        n += 1
        r = set_root(op_place(hist[0]))
        base = r[1] if isinstance(r, tuple) else r
        ok = any(ir == base or (isinstance(ir, tuple) and ir[1] == base) or ir == r for ib, ir in inserts if b.dominates(ib, bb))
        is_param = isinstance(base, int) and 1 <= base <= b.raw['argc'] and not any((ir == base) for ib, ir in inserts if b.dominates(ib, bb))
        ctx.ob('C09.R13', 'module-on-the-history|bb%d' % bb, ok and not is_param, b.loc(bb, t),
               'the history handed to this recursive call derives from a set that was extended on the way to it: %s' % (ok and not is_param))
    ctx.floor('C09.R13', 'recursive calls of index_local_types', n, 3)


REVIEWED_IMPORT_RESOLUTION_PANIC_SITES = {
    # (function, kind): (count, why it cannot fire) - confirmed by reading the tree with the repair of finding 30 applied
    ('RawModulePath::make_absolute', 'assert:Overflow'): (1, '`n_module_segments - n_super` after the `n_super >= n_module_segments` early return (the repair of finding 20; C09.R10 discharges the subtraction itself)'),
    ('RawModulePath::make_absolute', 'expect'): (1, 'a RawModulePath is parsed with a non-empty punctuated parser and `from!` refuses empty paths'),
    ('RawModulePath::make_absolute', 'index:Vec'): (1, '`self.0[0]` after `first()` succeeded'),
    ('resolve_imports', 'expect'): (1, '`path.0.first()` of a parsed, non-empty module path'),
    ('resolve_imports', 'index:Vec'): (1, '`path.0[0] = ..` of the same non-empty path'),
    ('resolve_imports', 'unwrap'): (1, 'metadata of a package id that `sources_for_all` has just read out of the package graph'),
    ('sources_for_all', 'unwrap'): (1, 'metadata of the package the blueprint was registered in, an id resolved against the package graph - except for a registering '
                                       'package that is itself called core / alloc / std (krate_name.rs short-circuits those names): reported by the round-8 C09 agent, '
                                       'not reproduced here, listed in DESIGN section 5'),
}


def r15_import_resolution_does_not_panic(ctx):
    ctx.rule('C09.R15', 'P3 audit with a reviewed table (the form of C09.R7 / R14): `user_components::imports` turns what the user wrote in `from![..]` into packages and '
             'module paths - names the user chose (a toolchain crate, a renamed dependency, too many `super`s). Every panic site there is one of the reviewed sites; '
             'an `expect` on a lookup keyed by a user-chosen name is a crash instead of a diagnostic.')
    _panic_site_audit(ctx, 'C09.R15', 'pavexc::compiler::analyses::user_components::imports::', REVIEWED_IMPORT_RESOLUTION_PANIC_SITES, 'import-resolution', 4, 1)


def r16_config_keys_are_validated_by_the_parser_that_unwraps_them(ctx):
    ctx.rule('C09.R16', 'P1/P9 validator/consumer agreement: `ConfigKey::ident()` turns the key into a field name with `syn::parse_str(..).unwrap()` ("infallible, the key is '
             'a valid identifier"); `ConfigKey::new` is the validator that makes it so. Every construction of a `ConfigKey` in `new` is dominated by a call to the '
             'same parser (`syn::parse_str`), so that whatever `new` accepts `ident` can parse - a key that is a Rust keyword (`type`, `match`) passes a '
             'character-class check and panics in `ident`.')
    CK = PX + 'component::config_type::ConfigKey'
    nb = [b for b in ctx.fb.bodies_of_item('pavexc', CK + '::new') if not b.is_promoted]
    ib = [b for b in ctx.fb.bodies_of_item('pavexc', CK + '::ident') if not b.is_promoted]
    if not (ctx.need('C09.R16', 'ConfigKey::new', nb) and ctx.need('C09.R16', 'ConfigKey::ident', ib)):
        return
    unwraps_parse = any((callee(t) or '').startswith('syn::parse_str') for b in ib for _, t in b.calls())
    ctx.ob('C09.R16', 'ident-unwraps-the-parser', unwraps_parse, ib[0].loc(), 'ConfigKey::ident goes through syn::parse_str: %s' % unwraps_parse, nontrivial=False)
    if not unwraps_parse:
        return                      # ident() no longer unwraps a parse: nothing for the validator to agree with
    n = 0
    for b in nb:
        parses = [bb for bb, t in b.calls() if (callee(t) or '').startswith('syn::parse_str')]
        for bb, j, st in b.all_assigns():
            rv = st['rv']
            if rv['k'] == 'agg' and rv.get('ak') == 'adt' and strip_generics(rv['adt']) == CK:
                n += 1
                ok = any(b.dominates(p_, bb) for p_ in parses)
                ctx.ob('C09.R16', 'validated-by-the-same-parser|ConfigKey::new', ok, b.loc(bb, st),
                       'the key is %s by syn::parse_str before a ConfigKey is built' % ('parsed' if ok else 'NOT parsed'))
    ctx.floor('C09.R16', 'constructions of ConfigKey in ConfigKey::new', n, 1)


REVIEWED_CALL_GRAPH_INVARIANT_PANIC_SITES = {
    ('enforce_invariants', 'assert:Overflow'): (1, '`n_errors * n_unique_error_observers`: two node counts of one graph'),
    # ('enforce_invariants', 'panic') is NOT reviewed away: it is finding 34 (known_findings.json)
}


def r17_call_graph_invariants_are_not_user_reachable_panics(ctx):
    ctx.rule('C09.R17', 'P3 audit with a reviewed table (the form of C09.R7): `core_graph::enforce_invariants` runs on every call graph `build_call_graph` produces, '
             'i.e. on a shape the user\'s blueprint decides. Each of its assertions is either argued to hold for every accepted blueprint, or it is a way to '
             'make pavexc crash on a valid application.')
    _panic_site_audit(ctx, 'C09.R17', 'pavexc::compiler::analyses::call_graph::core_graph::enforce_invariants', REVIEWED_CALL_GRAPH_INVARIANT_PANIC_SITES,
                      'call-graph-invariant', 1, 1)


def check(ctx):
    r17_call_graph_invariants_are_not_user_reachable_panics(ctx)
    r16_config_keys_are_validated_by_the_parser_that_unwraps_them(ctx)
    r15_import_resolution_does_not_panic(ctx)
    r14_cycle_detection_does_not_panic(ctx)
    r4_nothing_assumes_success_before_the_gate(ctx)
    r1_no_silent_failure(ctx)
    r2_writes_after_success(ctx)
    r3_progress_flag(ctx)
    r5_str_slicing(ctx)
    r6_inclusive_spans(ctx)
    r7_diagnostic_code_does_not_panic(ctx)
    r8_documentation_errors_are_reported(ctx)
    r9_persisted_ids_are_checked_against_the_graph(ctx)
    r10_early_passes_do_not_underflow(ctx)
    r11_no_import_processing_without_docs(ctx)
    r12_router_errors_are_not_assumed_away(ctx)
    r13_every_module_entered_is_on_the_history(ctx)


CLAUSE += ' Also: the panic sites of the dependency-cycle detector are the reviewed ones.'
