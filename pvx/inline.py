"""MIR-level inlining of crate-local helper functions (P13).

A rule that reasons about one function's control flow (dominance, must-pass-through, guard contexts, slices) should not care whether a
piece of that function has been moved into a private helper. `inlined(fb, body, ...)` returns a new Body in which every direct call to
an eligible helper is replaced by the helper's own blocks:

    bbN:  dest = helper(a1, .., ak) -> t          bbN:  p1 = a1; ..; pk = ak; goto entry'
                                          ==>     ...   helper's blocks, locals and block numbers shifted
                                                  ret': dest = move _0'; goto t

Eligible: a non-coroutine function of the same crate, defined in the same file as the root body, not public (`pub(crate)`/private),
not recursive, whose normalised path is not in `keep` (the callee names the rule itself anchors on) — or, with `also`, any function
whose path the predicate accepts. Depth-bounded (default 4 levels). Unwind edges are renumbered but not followed by Body.succ().

The inlined callee's closures stay separate bodies; `Body.extra_roots` lists the helper items that were inlined so that rules that look
for the closures of "this function" (`bodies_of_item`) can include them (see `closures_of`).
"""
import copy

from .facts import Body, callee, callee_resolved, strip_generics


def _shift_place(pl, dl):
    if pl is None:
        return
    pl['l'] += dl
    p = pl.get('p')
    if p:
        for i, e in enumerate(p):
            if isinstance(e, str) and e.startswith('i:_'):
                try:
                    p[i] = 'i:_%d' % (int(e[3:]) + dl)
                except ValueError:
                    pass


def _shift(node, dl):
    """shift every place found anywhere inside a JSON node by dl locals"""
    if isinstance(node, dict):
        if 'l' in node and isinstance(node['l'], int) and set(node.keys()) <= {'l', 'p'}:
            _shift_place(node, dl)
            return
        for v in node.values():
            _shift(v, dl)
    elif isinstance(node, list):
        for v in node:
            _shift(v, dl)


BLOCK_KEYS = ('t', 'u', 'else', 'dr')


def _shift_blocks(term, db):
    for k in BLOCK_KEYS:
        if k in term and isinstance(term[k], int):
            term[k] += db
    if term.get('k') == 'switch':
        term['ts'] = [[v, t + db] for v, t in term['ts']]


def eligible(fb, root, cb, keep, also):
    if cb is None or cb.is_coroutine or cb.is_promoted:
        return False
    if cb.nid in keep or cb.nid == root.nid:
        return False
    if cb.raw.get('dk') not in ('Fn', 'AssocFn'):
        return False
    if also is not None and also(cb):
        return True
    return cb.file == root.file and cb.raw.get('vis') != 'Public'


def inlined(fb, body, keep=(), also=None, depth=4, crate=None):
    """-> Body (a new one if anything was inlined, else `body` itself)"""
    crate = crate or body.crate
    keep = set(keep)
    raw = None
    stack_names = {body.nid}
    work = [(i, 0, frozenset([body.nid])) for i in range(len(body.blocks))]
    extra = []
    blocks = body.blocks
    locals_ = body.locals
    while work:
        i, d, chain = work.pop()
        t = blocks[i]['term']
        if not t or t['k'] != 'call' or d >= depth:
            continue
        name = callee_resolved(t) or callee(t)
        if not name or not name.startswith(crate + '::') and not name.startswith('<' + crate + '::'):
            continue
        if name in chain:
            continue
        try:
            cb = fb.body(crate, name)
        except KeyError:
            cb = None
        if not eligible(fb, body, cb, keep, also):
            continue
        if cb.raw['argc'] != len(t['args']):
            continue
        if raw is None:
            raw = dict(body.raw)
            raw['blocks'] = blocks = copy.deepcopy(body.raw['blocks'])
            raw['locals'] = locals_ = list(body.raw['locals'])
            raw['vars'] = copy.deepcopy(body.raw['vars'])
            t = blocks[i]['term']
        dl, db = len(locals_), len(blocks)
        locals_.extend(cb.raw['locals'])
        for v in copy.deepcopy(cb.raw['vars']):
            if 'pl' in v:
                _shift_place(v['pl'], dl)
            raw['vars'].append(v)
        cont, unwind, dest = t.get('t'), t.get('u'), t.get('dest')
        new_blocks = copy.deepcopy(cb.raw['blocks'])
        for j, nb in enumerate(new_blocks):
            _shift(nb['st'], dl)
            nt = nb['term']
            if nt:
                tgt = {k: nt[k] for k in BLOCK_KEYS if k in nt}
                ts = nt.get('ts')
                for k in list(tgt):
                    nt.pop(k)
                if ts is not None:
                    nt.pop('ts')
                _shift(nt, dl)
                nt.update(tgt)
                if ts is not None:
                    nt['ts'] = ts
                _shift_blocks(nt, db)
                if nt['k'] == 'return':
                    if dest is not None:
                        nb['st'].append({'ln': nt.get('ln', t.get('ln')), 'lhs': copy.deepcopy(dest), 'rv': {'k': 'use', 'op': {'mv': {'l': dl}}},
                                         'inl': cb.nid})
                    if cont is not None:
                        nb['term'] = {'ln': nt.get('ln'), 'k': 'goto', 't': cont, 'inl': cb.nid}
                    else:
                        nb['term'] = {'ln': nt.get('ln'), 'k': 'unreachable'}
                elif nt['k'] == 'resume' and unwind is not None:
                    nb['term'] = {'ln': nt.get('ln'), 'k': 'goto', 't': unwind}
            blocks.append(nb)
        # the call site: bind the parameters, jump to the helper's entry
        for k, a in enumerate(t['args']):
            blocks[i]['st'].append({'ln': t.get('ln'), 'lhs': {'l': dl + 1 + k}, 'rv': {'k': 'use', 'op': copy.deepcopy(a)}, 'inl': cb.nid})
        blocks[i]['term'] = {'ln': t.get('ln'), 'k': 'goto', 't': db, 'inl': cb.nid, 'inl_call': t}
        extra.append(cb.nroot)
        work.extend((db + j, d + 1, chain | {name}) for j in range(len(new_blocks)))
    if raw is None:
        return body
    nb = Body(raw, body.crate, fb)
    raw['extra_roots'] = sorted(set(extra) | set(body.raw.get('extra_roots', [])))
    return nb


def closures_of(fb, body):
    """nested closure/coroutine bodies of the function and of every helper inlined into it"""
    out = [b for b in fb.bodies_of_item(body.crate, body.nroot) if b.nid != body.nid]
    for r in body.raw.get('extra_roots', []):
        out.extend(b for b in fb.bodies_of_item(body.crate, r) if b.nid != r)
    return out
